import Std.Data.HashMap
import NutsModel.Drv.Common
import NutsModel.Model.DepthWindow
import NutsModel.Model.Tree

namespace NutsModel.Drv.C01
open NutsModel NutsModel.Model NutsModel.Drv

def lae (t : Toks) : Verdict := Id.run do
  let some a := fAt t 1 | return .bad "a"
  let some b := fAt t 2 | return .bad "b"
  let some r := fAt t 3 | return .bad "r"
  let m := Gen.logaddexp a b
  if sameBits m r then return .ok
  return .mismatch s!"logaddexp a={showF a} b={showF b} model={showF m} impl={showF r}"

structure Parsed where
  case : Nat
  opt : Options
  tape : Array Nat
  ths : Array String
  evs : Array Ev
  eerr : Std.HashMap Int Float
  leap : Std.HashMap Int LeapOutcome
  crit : Std.HashMap (Int × Int) Bool
  outcome : DrawOutcome
  divDst : Option (Option Int)     -- impl's divergence destination (none = not reported)
  merges : Array (Nat × Bool × Int × Float)
  acc : Float × Float × Nat

def parse (t : Toks) : Except String Parsed := do
  let get (i : Nat) : Except String String := match t[i]? with | some s => pure s | none => throw s!"short@{i}"
  let nat (i : Nat) : Except String Nat := do match (← get i).toNat? with | some n => pure n | none => throw s!"nat@{i}"
  let int (i : Nat) : Except String Int := do match (← get i).toInt? with | some n => pure n | none => throw s!"int@{i}"
  let case ← nat 1
  let maxdepth ← nat 2
  let mindepth ← nat 3
  let check ← nat 4
  let extra ← nat 5
  let used ← nat 6
  let mut i := 7
  let mut tape : Array Nat := #[]
  let mut ths : Array String := #[]
  for _ in [0:used] do
    tape := tape.push (← nat i)
    ths := ths.push (← get (i + 1))
    i := i + 2
  let nev ← nat i
  i := i + 1
  let mut evs : Array Ev := #[]
  let mut eerr : Std.HashMap Int Float := {}
  let mut leap : Std.HashMap Int LeapOutcome := {}
  let mut crit : Std.HashMap (Int × Int) Bool := {}
  for _ in [0:nev] do
    let k ← get i
    if k == "L" then
      let src ← int (i + 1)
      let dst ← int (i + 2)
      let oc ← nat (i + 3)
      let e ← nat (i + 4)
      evs := evs.push (.leap src dst)
      leap := leap.insert dst (if oc == 0 then .ok else if oc == 1 then .diverge else .err)
      eerr := eerr.insert dst (b2f e)
      i := i + 5
    else if k == "T" then
      let a ← int (i + 1)
      let b ← int (i + 2)
      let r ← nat (i + 3)
      evs := evs.push (.turn a b)
      crit := crit.insert (a, b) (r == 1)
      i := i + 4
    else throw s!"event kind {k}"
  let k ← get i
  let mut outcome : DrawOutcome := .err
  let mut divDst : Option (Option Int) := none
  if k == "R" then
    let d ← int (i + 1)
    let depth ← nat (i + 2)
    let mf ← nat (i + 3)
    let dv ← nat (i + 4)
    if dv == 1 then
      let s ← int (i + 5)
      let dd ← get (i + 6)
      divDst := some dd.toInt?
      -- the implementation reports the start index; the destination is start ± 1 (kept from the model)
      outcome := .ok { draw := d, depth := depth, reachedMaxdepth := mf == 1, diverging := some (s, 0) }
      i := i + 7
    else
      outcome := .ok { draw := d, depth := depth, reachedMaxdepth := mf == 1, diverging := none }
      i := i + 5
  else if k == "E" then
    outcome := .err; i := i + 1
  else if k == "P" then
    outcome := .panic "impl"; i := i + 1
  else throw s!"outcome kind {k}"
  if (← get i) != "M" then throw "expected M"
  let nm ← nat (i + 1)
  i := i + 2
  let mut merges : Array (Nat × Bool × Int × Float) := #[]
  for _ in [0:nm] do
    merges := merges.push ((← nat i), (← nat (i + 1)) == 1, (← int (i + 2)), b2f (← nat (i + 3)))
    i := i + 4
  if (← get i) != "A" then throw "expected A"
  let acc := (b2f (← nat (i + 1)), b2f (← nat (i + 2)), (← nat (i + 3)))
  if t.size != i + 4 then throw "trailing tokens"
  return { case, opt := { maxdepth, mindepth, checkTurning := check == 1, extraDoublings := extra },
           tape, ths, evs, eerr, leap, crit, outcome, divDst, merges, acc }

def sameOutcome (m i : DrawOutcome) : Bool :=
  match m, i with
  | .ok a, .ok b => a.draw == b.draw && a.depth == b.depth && a.reachedMaxdepth == b.reachedMaxdepth &&
      (match a.diverging, b.diverging with
        | none, none => true
        | some (s, _), some (s', _) => s == s'
        | _, _ => false)
  | .err, .err => true
  | .panic _, .panic _ => true
  | _, _ => false

def showOutcome : DrawOutcome → String
  | .ok r => s!"ok draw={r.draw} depth={r.depth} max={r.reachedMaxdepth} div={repr r.diverging}"
  | .err => "err"
  | .panic s => s!"panic({s})"

def drawRec (t : Toks) : Verdict := Id.run do
  let p ← match parse t with | .ok p => pure p | .error e => return .bad s!"draw: {e}"
  let orbit : Orbit Float := {
    energyErr := fun i => (p.eerr.get? i).getD 0.0
    leap := fun i => (p.leap.get? i).getD .ok
    crit := fun a b => (p.crit.get? (a, b)).getD false }
  let prog := (draw orbit p.opt).run {}
  match Rand.run prog p.tape.toList with
  | .tapeEmpty => return .mismatch s!"draw case={p.case}: model needs more RNG words than the implementation used ({p.tape.size})"
  | .panic s =>
    match p.outcome with
    | .panic _ => return .ok
    | _ => return .mismatch s!"draw case={p.case}: model panics ({s}), implementation did not"
  | .done (out, log) rest =>
    if !rest.isEmpty then
      return .mismatch s!"draw case={p.case}: model used {p.tape.size - rest.length} RNG words, implementation {p.tape.size}"
    if !(sameOutcome out p.outcome) then
      return .mismatch s!"draw case={p.case}: outcome model={showOutcome out} impl={showOutcome p.outcome}"
    let mevs := log.evs.reverse.toArray
    if mevs.size != p.evs.size then
      return .mismatch s!"draw case={p.case}: model made {mevs.size} Hamiltonian calls, implementation {p.evs.size}"
    for j in [0:mevs.size] do
      if mevs[j]! != p.evs[j]! then
        return .mismatch s!"draw case={p.case}: Hamiltonian call #{j} model={repr mevs[j]!} impl={repr p.evs[j]!}"
    let mm := log.merges.reverse.toArray
    if mm.size != p.merges.size then
      return .mismatch s!"draw case={p.case}: model performed {mm.size} merges, implementation {p.merges.size}"
    for j in [0:mm.size] do
      let (d, mn, idx, ls) := mm[j]!
      let (d', mn', idx', ls') := p.merges[j]!
      if d != d' || mn != mn' || idx != idx' then
        return .mismatch s!"draw case={p.case}: merge #{j} model=(depth {d}, main {mn}, draw {idx}) impl=(depth {d'}, main {mn'}, draw {idx'})"
      if !(sameBits ls ls') then
        return .mismatch s!"draw case={p.case}: merge #{j} log_size model={showF ls} impl={showF ls'}"
    -- Bernoulli thresholds measured on the implementation by bisection vs the model's p
    let mut k := 0
    for r in log.rng.reverse do
      match r with
      | none =>
        if let some th := p.ths[k]? then
          if th != "u" && th != "9223372036854775808" then
            return .mismatch s!"draw case={p.case}: RNG call #{k} is a direction coin in the model, measured threshold {th}"
        k := k + 1
      | some pr =>
        if pr == 1.0 then pure ()
        else
          if let some th := p.ths[k]? then
            if th != "u" then
              let mt := Rand.bernThreshold pr
              if !(th.toNat? == some mt || (th == "n" && mt == 0)) then
                return .mismatch s!"draw case={p.case}: RNG call #{k}: model acceptance probability {pr} (threshold {mt}), measured threshold {th}"
          k := k + 1
    -- acceptance statistics: the translated collector fed with the same leapfrogs
    let mut c : Gen.AcceptanceRateCollector Float := Gen.AcceptanceRateCollector.new
    c := c.register_init 0.0
    for e in p.evs do
      match e with
      | .leap _ dst =>
        match (p.leap.get? dst).getD .ok with
        | .ok => c := c.register_leapfrog ((p.eerr.get? dst).getD 0.0) none
        | .diverge => c := c.register_leapfrog 0.0 (some ())
        | .err => pure ()
      | _ => pure ()
    let (am, ams, an) := p.acc
    if c.mean.count != an then
      return .mismatch s!"draw case={p.case}: collector count model={c.mean.count} impl={an}"
    if an > 0 then
      if !(sameBits c.mean.current am) then
        return .mismatch s!"draw case={p.case}: mean_tree_accept model={showF c.mean.current} impl={showF am}"
      if !(sameBits c.mean_sym.current ams) then
        return .mismatch s!"draw case={p.case}: mean_tree_accept_sym model={showF c.mean_sym.current} impl={showF ams}"
    return .ok

/-- `window case T eps optMin optMax depthNeverTurning depthAlwaysTurning`: the REAL `nuts::draw` with a target
    integration time on a mock orbit that never U-turns (its depth is the effective maxdepth) and on one that always
    U-turns (its depth is the effective mindepth, capped); compared with `Model.depthWindow`. -/
def windowRec (t : Toks) : Verdict := Id.run do
  let some case := natAt t 1 | return .bad "case"
  let some tt := fAt t 2 | return .bad "T"
  let some eps := fAt t 3 | return .bad "eps"
  let some optMin := natAt t 4 | return .bad "mindepth"
  let some optMax := natAt t 5 | return .bad "maxdepth"
  let some dNever := natAt t 6 | return .bad "depth"
  let some dAlways := natAt t 7 | return .bad "depth"
  -- `(target_time / step_size).ceil() as u64`
  let ms := (Float.ceil (tt / eps)).toUInt64.toNat
  if ms == 0 then return .dontcare      -- log2(0): outside the property's domain (T > 0 with T/eps not underflowing)
  -- the float route of the Rust code must agree with the integer logarithms of the model (exact below 2^53)
  let fl := (Float.floor (Float.log2 (Float.ofNat ms))).toUInt64.toNat
  let ce := (Float.ceil (Float.log2 (Float.ofNat ms))).toUInt64.toNat
  if fl != NutsModel.Model.log2Floor ms || ce != NutsModel.Model.log2Ceil ms then return .dontcare
  let (lo, hi) := NutsModel.Model.depthWindow ms optMin optMax
  -- depth the tree model reaches with this window on a flat orbit that never / always satisfies the U-turn criterion
  let modelDepth (always : Bool) : Option Nat :=
    let o : Orbit Float := { energyErr := fun _ => 0.0, leap := fun _ => .ok, crit := fun _ _ => always }
    match Rand.run ((draw o { maxdepth := hi, mindepth := lo, checkTurning := true, extraDoublings := 0 }).run {}) (List.replicate 4096 0) with
    | .done (.ok r, _) _ => some r.depth
    | _ => none
  let some mNever := modelDepth false | return .bad "model run"
  let some mAlways := modelDepth true | return .bad "model run"
  if mNever != hi then return .mismatch s!"window case={case}: tree model does not reach maxdepth' {hi} on a never-turning orbit ({mNever})"
  if dNever != mNever then
    return .mismatch s!"window case={case}: never-turning orbit reached depth {dNever}, model (maxdepth' = {hi}) {mNever} (max_steps {ms}, options {optMin}..{optMax})"
  if dAlways != mAlways then
    return .mismatch s!"window case={case}: always-turning orbit stopped at depth {dAlways}, model (window {lo}..{hi}) {mAlways} (max_steps {ms}, options {optMin}..{optMax})"
  return .ok

def dispatch (t : Toks) : Option Verdict :=
  match t[0]? with
  | some "lae" => some (lae t)
  | some "draw" => some (drawRec t)
  | some "window" => some (windowRec t)
  | _ => none

end NutsModel.Drv.C01
