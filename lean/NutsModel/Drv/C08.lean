import NutsModel.Drv.Common
import NutsModel.Model.MassMatrix

namespace NutsModel.Drv.C08
open NutsModel NutsModel.Model NutsModel.Drv

instance : Inhabited (Scale Float) := ⟨{ std := 1.0, invStd := 1.0, mean := 0.0 }⟩
instance : Inhabited (RunVar Float) := ⟨RunVar.new⟩
instance : Inhabited (DiagEst Float) := ⟨DiagEst.new⟩

/-- `diag case d nops op*`: a real `DiagAdaptStrategy` + `DiagMassMatrix` driven through the hook
    `EstimatorProbe`, replayed coordinate by coordinate.
    ops: `0 pos[d] grad[d]` init · `1 good draw[d] grad[d]` update_estimators · `2` switch ·
    `3 changed std[d] invStd[d] mean[d]` adapt (with the real result, compared bit for bit). -/
def diagRec (t : Toks) : Verdict := Id.run do
  let some case := natAt t 1 | return .bad "case"
  let some d := natAt t 2 | return .bad "d"
  let some nops := natAt t 3 | return .bad "nops"
  let mut est : Array (DiagEst Float) := Array.replicate d DiagEst.new
  let mut sc : Array (Scale Float) := Array.replicate d { std := 1.0, invStd := 1.0, mean := 0.0 }
  let mut i := 4
  for k in [0:nops] do
    let some op := natAt t i | return .bad s!"op {k}"
    i := i + 1
    if op == 0 then
      let some pos := fSlice t i d | return .bad "init pos"
      let some grad := fSlice t (i + d) d | return .bad "init grad"
      i := i + 2 * d
      for c in [0:d] do
        let (e', s') := (est[c]!).init pos[c]! grad[c]!
        est := est.set! c e'
        sc := sc.set! c s'
    else if op == 1 then
      let some good := natAt t i | return .bad "good"
      let some x := fSlice t (i + 1) d | return .bad "draw"
      let some g := fSlice t (i + 1 + d) d | return .bad "grad"
      i := i + 1 + 2 * d
      if good == 1 then
        for c in [0:d] do
          est := est.set! c ((est[c]!).add x[c]! g[c]!)
    else if op == 2 then
      for c in [0:d] do
        est := est.set! c (est[c]!).switch
    else if op == 3 then
      let some changed := natAt t i | return .bad "changed"
      let some stds := fSlice t (i + 1) d | return .bad "stds"
      let some inv := fSlice t (i + 1 + d) d | return .bad "inv"
      let some mean := fSlice t (i + 1 + 2 * d) d | return .bad "mean"
      i := i + 1 + 3 * d
      let mut anyChange := false
      for c in [0:d] do
        match (est[c]!).adapt sc[c]! with
        | none => pure ()
        | some s' =>
          anyChange := true
          sc := sc.set! c s'
      if (changed == 1) != (anyChange || (d == 0 && changed == 1)) then
        return .mismatch s!"diag case={case} op#{k}: adapt returned changed={changed}, model {anyChange}"
      for c in [0:d] do
        let s := sc[c]!
        if !(sameBits s.std stds[c]! && sameBits s.invStd inv[c]! && sameBits s.mean mean[c]!) then
          return .mismatch s!"diag case={case} op#{k} coordinate {c}: model (std, 1/std, mean) = ({showF s.std}, {showF s.invStd}, {showF s.mean}) impl = ({showF stds[c]!}, {showF inv[c]!}, {showF mean[c]!})"
    else return .bad s!"unknown op {op}"
  return .ok

def dispatch (t : Toks) : Option Verdict :=
  match t[0]? with
  | some "diag" => some (diagRec t)
  | _ => none

end NutsModel.Drv.C08
