import NutsModel.Drv.Common
import NutsModel.Model.Leapfrog

namespace NutsModel.Drv.C02
open NutsModel NutsModel.Model NutsModel.Drv

def vecOf (a : Array Float) (n : Nat) : Vec Float n := fun i => a[i.val]?.getD 0.0

def maxAbs (n : Nat) (v : Vec Float n) : Float := Fin.foldl n (fun acc i => fmaxF acc (Float.abs (v i))) 0.0

/-- compare two vectors: `|a i − b i| ≤ tol · scale` for all i (NaNs must coincide) -/
def vecClose (n : Nat) (a b : Vec Float n) (tol scale : Float) : Option (Nat × Float × Float) :=
  Fin.foldl n (fun acc i =>
    match acc with
    | some x => some x
    | none =>
      let x := a i
      let y := b i
      if (x.isNaN && y.isNaN) || x == y || Float.abs (x - y) ≤ tol * scale then none else some (i.val, x, y)) none

def leap (t : Toks) : Verdict := Id.run do
  let some case := natAt t 1 | return .bad "case"
  let some lr := natAt t 2 | return .bad "lowrank"
  let some ex := natAt t 3 | return .bad "exact"
  let some n := natAt t 4 | return .bad "n"
  let some k := natAt t 5 | return .bad "k"
  let some eps := fAt t 6 | return .bad "eps"
  let total := 7 + (2 * n + k + k * n + n) + (5 * n + 4) + (5 * n + 4) + 1
  if t.size != total then return .bad s!"leap length {t.size} vs {total}"
  let mut i := 7
  let take (i n : Nat) : Array Float := (fSlice t i n).getD #[]
  let mean := take i n; i := i + n
  let stds := take i n; i := i + n
  let vals := take i k; i := i + k
  let vecs := take i (k * n); i := i + k * n
  let mu := take i n; i := i + n
  let x := take i n; i := i + n
  let gx := take i n; i := i + n
  let y := take i n; i := i + n
  let gy := take i n; i := i + n
  let v := take i n; i := i + n
  let logp := (fAt t i).getD 0.0
  let logdet := (fAt t (i + 1)).getD 0.0
  let kinetic := (fAt t (i + 2)).getD 0.0
  let energyS := (fAt t (i + 3)).getD 0.0
  i := i + 4
  let x' := take i n; i := i + n
  let gx' := take i n; i := i + n
  let y' := take i n; i := i + n
  let gy' := take i n; i := i + n
  let v' := take i n; i := i + n
  let logp' := (fAt t i).getD 0.0
  let kinetic' := (fAt t (i + 2)).getD 0.0
  let energy' := (fAt t (i + 3)).getD 0.0
  let diag : DiagT Float n := { mean := vecOf mean n, stds := vecOf stds n, invStds := fun j => 1.0 / (vecOf stds n j) }
  let T : Transform Float n :=
    if lr == 1 then
      (({ diag := diag, U := fun c => fun j => vecs[c.val * n + j.val]?.getD 0.0,
          valsSqrt := fun c => Float.sqrt (vals[c.val]?.getD 1.0),
          valsSqrtInv := fun c => 1.0 / Float.sqrt (vals[c.val]?.getD 1.0),
          mu := vecOf mu n,
          logdetInner := vsum (fun c : Fin k => (-0.5 : Float) * Float.log (vals[c.val]?.getD 1.0)) } : LowRankT Float n k)).transform
    else diag.transform
  let kind := if ex == 1 then Kinetic.exactNormal else Kinetic.euclidean
  -- conditioning of the low-rank application: factors (λ^{±1/2} − 1)
  let amp : Float := Fin.foldl k (fun acc (c : Fin k) =>
      let s := Float.sqrt (vals[c.val]?.getD 1.0)
      fmaxF acc (fmaxF (Float.abs (s - 1.0)) (Float.abs (1.0 / s - 1.0)))) 0.0
  let tol := 1e-11 * (1.0 + amp) * (1.0 + n.toFloat)
  let bad (what : String) (r : Nat × Float × Float) : Verdict :=
    .mismatch s!"leap case={case} lowrank={lr} exact={ex} n={n} k={k}: {what}[{r.1}] model={showF r.2.1} impl={showF r.2.2}"
  let yv := vecOf y n
  let xv := vecOf x n
  -- the start point: the three maps of the transformation and the energy bookkeeping
  let zscale := maxAbs n (fun j => (xv j - diag.mean j) * diag.invStds j) + maxAbs n (vecOf mu n) + maxAbs n yv + 1e-300
  if let some r := vecClose n (T.toY xv) yv tol zscale then return bad "transformed_position(start)" r
  if let some r := vecClose n (T.toX yv) xv tol (maxAbs n (fun j => (xv j - diag.mean j)) + maxAbs n (fun j => diag.stds j * (Float.abs (yv j) + Float.abs (vecOf mu n j)))) then return bad "untransformed_position(start)" r
  if let some r := vecClose n (T.gradY (vecOf gx n)) (vecOf gy n) tol (maxAbs n (fun j => vecOf gx n j * diag.stds j) + maxAbs n (vecOf gy n) + 1e-300) then return bad "transformed_gradient(start)" r
  if Float.abs (T.logdet - logdet) > 1e-10 * (1.0 + Float.abs logdet) * (1.0 + n.toFloat) then
    return .mismatch s!"leap case={case}: logdet model={showF T.logdet} impl={showF logdet}"
  let ke := kineticEnergy (vecOf v n)
  if Float.abs (ke - kinetic) > 1e-12 * (1.0 + ke) * (1.0 + n.toFloat) then return .mismatch s!"leap case={case}: kinetic energy model={showF ke} impl={showF kinetic}"
  let em := energy T logp (vecOf v n)
  if Float.abs (em - energyS) > 1e-9 * (1.0 + Float.abs ke + Float.abs logp + Float.abs logdet) then return .mismatch s!"leap case={case}: energy model={showF em} impl={showF energyS}"
  -- one step; the density is the recorded evaluation at the new position
  let q := leapfrog T (fun _ => vecOf gx' n) kind eps { y := yv, v := vecOf v n, gy := vecOf gy n }
  let sy := maxAbs n yv + Float.abs eps * (maxAbs n (vecOf v n) + Float.abs eps * maxAbs n (vecOf gy n)) + 1e-300
  if let some r := vecClose n q.y (vecOf y' n) (1e-12 * (1.0 + n.toFloat)) sy then return bad "position" r
  if let some r := vecClose n q.gy (vecOf gy' n) tol (maxAbs n (fun j => vecOf gx' n j * diag.stds j) + maxAbs n (vecOf gy' n) + 1e-300) then return bad "transformed_gradient" r
  let sv := maxAbs n (vecOf v n) + Float.abs eps * (maxAbs n (vecOf gy n) + maxAbs n (vecOf gy' n) + maxAbs n yv + maxAbs n (vecOf y' n)) + 1e-300
  if let some r := vecClose n q.v (vecOf v' n) (tol * 10.0) sv then return bad "velocity" r
  if let some r := vecClose n (T.toX (vecOf y' n)) (vecOf x' n) tol (maxAbs n (fun j => (vecOf x' n j - diag.mean j)) + maxAbs n (fun j => diag.stds j * (Float.abs (vecOf y' n j) + Float.abs (vecOf mu n j)))) then return bad "untransformed_position" r
  let ke' := kineticEnergy (vecOf v' n)
  if Float.abs (ke' - kinetic') > 1e-12 * (1.0 + ke') * (1.0 + n.toFloat) then return .mismatch s!"leap case={case}: kinetic energy' model={showF ke'} impl={showF kinetic'}"
  let em' := energy T logp' (vecOf v' n)
  if Float.abs (em' - energy') > 1e-9 * (1.0 + Float.abs ke' + Float.abs logp' + Float.abs logdet) then return .mismatch s!"leap case={case}: energy' model={showF em'} impl={showF energy'}"
  return .ok

def dispatch (t : Toks) : Option Verdict :=
  match t[0]? with
  | some "leap" => some (leap t)
  | _ => none

end NutsModel.Drv.C02
