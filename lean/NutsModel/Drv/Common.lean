/- Line-protocol helpers for the driver (core only). -/
import NutsModel.Scalar

namespace NutsModel.Drv

structure Stats where
  n : Nat := 0
  ok : Nat := 0
  mismatch : Nat := 0
  dontcare : Nat := 0
  bad : Nat := 0
  branches : List (String × Nat) := []

def Stats.hit (s : Stats) (k : String) : Stats :=
  let rec go : List (String × Nat) → List (String × Nat)
    | [] => [(k, 1)]
    | (k', n) :: r => if k' == k then (k', n + 1) :: r else (k', n) :: go r
  { s with branches := go s.branches }

/-- result of checking one record -/
inductive Verdict where
  | ok
  | dontcare
  | mismatch (msg : String)
  | bad (msg : String)

abbrev Toks := Array String

def natAt (t : Toks) (i : Nat) : Option Nat := (t[i]?).bind String.toNat?
def intAt (t : Toks) (i : Nat) : Option Int := (t[i]?).bind String.toInt?
def fAt (t : Toks) (i : Nat) : Option Float := (natAt t i).map b2f

def fSlice (t : Toks) (i n : Nat) : Option (Array Float) := Id.run do
  let mut out : Array Float := Array.mkEmpty n
  for j in [0:n] do
    match fAt t (i + j) with
    | some x => out := out.push x
    | none => return none
  return some out

/-- bit equality, treating all NaNs as equal -/
def sameBits (a b : Float) : Bool := (a.isNaN && b.isNaN) || a.toBits == b.toBits

/-- distance in units in the last place (for finite same-sign values), huge otherwise -/
def ulpDist (a b : Float) : Nat :=
  if sameBits a b then 0
  else if a.isNaN || b.isNaN then 1000000000
  else
    let x := a.toBits.toNat
    let y := b.toBits.toNat
    if (x ≥ 2^63) != (y ≥ 2^63) then (if a == b then 0 else 1000000000)
    else if x ≥ y then x - y else y - x

def fmaxF (a b : Float) : Float := if a < b then b else a

def closeRel (a b : Float) (rel : Float) (abs : Float := 0.0) : Bool :=
  sameBits a b || (a == b) || (Float.abs (a - b) ≤ rel * fmaxF (Float.abs a) (Float.abs b) + abs)

def showF (x : Float) : String := s!"{x}[{x.toBits}]"

end NutsModel.Drv
