import NutsModel.Drv.Common
import NutsModel.Gen.Numeric
import NutsModel.Model.StepSizeSearch

namespace NutsModel.Drv.C07
open NutsModel NutsModel.Gen NutsModel.Drv

/-- `da case k t0 gamma max init target n a_1..a_n (step_i bar_i)*` : bit-exact replay of the
    translated `DualAverage` on the history the real code was driven with. -/
def da (t : Toks) : Verdict := Id.run do
  let some case := natAt t 1 | return .bad "case"
  let some k := fAt t 2 | return .bad "k"
  let some t0 := fAt t 3 | return .bad "t0"
  let some gamma := fAt t 4 | return .bad "gamma"
  let some mx := fAt t 5 | return .bad "max"
  let some init := fAt t 6 | return .bad "init"
  let some target := fAt t 7 | return .bad "target"
  let some n := natAt t 8 | return .bad "n"
  let some hist := fSlice t 9 n | return .bad "hist"
  let some outs := fSlice t (9 + n) (2 * n) | return .bad "outs"
  if t.size != 9 + 3 * n then return .bad "length"
  let mut s : DualAverage Float := DualAverage.new { k := k, t0 := t0, gamma := gamma, max_step_size := mx } init
  for i in [0:n] do
    s := s.advance hist[i]! target
    let ms := s.current_step_size
    let mb := s.current_step_size_adapted
    if !(sameBits ms outs[2*i]!) then
      return .mismatch s!"da case={case} update={i} field=step_size model={showF ms} impl={showF outs[2*i]!}"
    if !(sameBits mb outs[2*i+1]!) then
      return .mismatch s!"da case={case} update={i} field=step_size_bar model={showF mb} impl={showF outs[2*i+1]!}"
  return .ok

def adam (t : Toks) : Verdict := Id.run do
  let some case := natAt t 1 | return .bad "case"
  let some b1 := fAt t 2 | return .bad "b1"
  let some b2 := fAt t 3 | return .bad "b2"
  let some eps := fAt t 4 | return .bad "eps"
  let some lr := fAt t 5 | return .bad "lr"
  let some init := fAt t 6 | return .bad "init"
  let some target := fAt t 7 | return .bad "target"
  let some n := natAt t 8 | return .bad "n"
  let some hist := fSlice t 9 n | return .bad "hist"
  let some outs := fSlice t (9 + n) n | return .bad "outs"
  if t.size != 9 + 2 * n then return .bad "length"
  let mut s : Adam Float := Adam.new { beta1 := b1, beta2 := b2, epsilon := eps, learning_rate := lr } init
  for i in [0:n] do
    s := s.advance hist[i]! target
    let ms := s.current_step_size
    if !(sameBits ms outs[i]!) then
      return .mismatch s!"adam case={case} update={i} field=step_size model={showF ms} impl={showF outs[i]!}"
  return .ok

/-- `search case adam target init n (fwd step outcome eerr)*n final_step adapt_step`:
    replay of `Strategy::init` against the scripted one-step energies. -/
def search (t : Toks) : Verdict := Id.run do
  let some case := natAt t 1 | return .bad "case"
  let some _adam := natAt t 2 | return .bad "adam"
  let some target := fAt t 3 | return .bad "target"
  let some init := fAt t 4 | return .bad "init"
  let some n := natAt t 5 | return .bad "n"
  if t.size != 6 + 4 * n + 2 then return .bad "length"
  let mut trials : Array (Bool × Float × Nat × Float) := #[]
  for j in [0:n] do
    let some fwd := natAt t (6 + 4 * j) | return .bad "fwd"
    let some step := fAt t (6 + 4 * j + 1) | return .bad "step"
    let some oc := natAt t (6 + 4 * j + 2) | return .bad "oc"
    let some ee := fAt t (6 + 4 * j + 3) | return .bad "eerr"
    trials := trials.push (fwd == 1, step, oc, ee)
  let some finalStep := fAt t (6 + 4 * n) | return .bad "final"
  let some adaptStep := fAt t (6 + 4 * n + 1) | return .bad "adapt"
  -- the recorded trials as the acceptance function; a query the implementation never made is flagged
  let acc : Bool → Float → Option Float := fun fwd eps =>
    match trials.find? (fun (f, s, _, _) => f == fwd && s.toBits == eps.toBits) with
    | some (_, _, oc, ee) =>
      if oc == 0 then
        -- one leapfrog: mean acceptance = exp(min(E0 - E, 0)), computed by the translated collector
        let c : Gen.AcceptanceRateCollector Float := (Gen.AcceptanceRateCollector.new).register_init 0.0
        some (c.register_leapfrog ee none).mean.current
      else none
    | none => some (0.0 / 0.0)
  let r := Model.search acc init target
  let expectedTrials := match r.exit with
    | .firstFailed => 1
    | .fuel => 101
    | _ => r.moves + 2
  if expectedTrials != n then
    return .mismatch s!"search case={case}: model makes {expectedTrials} trial leapfrogs ({repr r.exit}), implementation {n}"
  if !(sameBits r.step finalStep) then
    return .mismatch s!"search case={case}: exit={repr r.exit} step model={showF r.step} impl={showF finalStep}"
  -- step size the adaptation reports afterwards: exp(ln(reinit)) or exp(ln(initial_step))
  let base := match r.reinit with | some e => e | none => init
  let expectAdapt := Float.exp (Float.log base)
  if !(sameBits expectAdapt adaptStep) then
    return .mismatch s!"search case={case}: adaptation restarted from model={showF expectAdapt} impl={showF adaptStep}"
  return .ok

def dispatch (t : Toks) : Option Verdict :=
  match t[0]? with
  | some "da" => some (da t)
  | some "adam" => some (adam t)
  | some "search" => some (search t)
  | _ => none

end NutsModel.Drv.C07
