import NutsModel.Drv.Common
import NutsModel.Gen.Numeric

namespace NutsModel.Drv.C07
open NutsModel NutsModel.Gen NutsModel.Drv

/-- `da case k t0 gamma max init target n a_1..a_n (step_i bar_i)*` : bit-exact replay of the
    translated `DualAverage` on the history the real code was driven with. -/
def da (t : Toks) : Verdict := Id.run do
  let some case := natAt t 1 | return .bad "case"
  let some k := fAt t 2 | return .bad "k"
  let some t0 := fAt t 3 | return .bad "t0"
  let some gamma := fAt t 4 | return .bad "gamma"
  let some mx := fAt t 5 | return .bad "max"
  let some init := fAt t 6 | return .bad "init"
  let some target := fAt t 7 | return .bad "target"
  let some n := natAt t 8 | return .bad "n"
  let some hist := fSlice t 9 n | return .bad "hist"
  let some outs := fSlice t (9 + n) (2 * n) | return .bad "outs"
  if t.size != 9 + 3 * n then return .bad "length"
  let mut s : DualAverage Float := DualAverage.new { k := k, t0 := t0, gamma := gamma, max_step_size := mx } init
  for i in [0:n] do
    s := s.advance hist[i]! target
    let ms := s.current_step_size
    let mb := s.current_step_size_adapted
    if !(sameBits ms outs[2*i]!) then
      return .mismatch s!"da case={case} update={i} field=step_size model={showF ms} impl={showF outs[2*i]!}"
    if !(sameBits mb outs[2*i+1]!) then
      return .mismatch s!"da case={case} update={i} field=step_size_bar model={showF mb} impl={showF outs[2*i+1]!}"
  return .ok

def adam (t : Toks) : Verdict := Id.run do
  let some case := natAt t 1 | return .bad "case"
  let some b1 := fAt t 2 | return .bad "b1"
  let some b2 := fAt t 3 | return .bad "b2"
  let some eps := fAt t 4 | return .bad "eps"
  let some lr := fAt t 5 | return .bad "lr"
  let some init := fAt t 6 | return .bad "init"
  let some target := fAt t 7 | return .bad "target"
  let some n := natAt t 8 | return .bad "n"
  let some hist := fSlice t 9 n | return .bad "hist"
  let some outs := fSlice t (9 + n) n | return .bad "outs"
  if t.size != 9 + 2 * n then return .bad "length"
  let mut s : Adam Float := Adam.new { beta1 := b1, beta2 := b2, epsilon := eps, learning_rate := lr } init
  for i in [0:n] do
    s := s.advance hist[i]! target
    let ms := s.current_step_size
    if !(sameBits ms outs[i]!) then
      return .mismatch s!"adam case={case} update={i} field=step_size model={showF ms} impl={showF outs[i]!}"
  return .ok

def dispatch (t : Toks) : Option Verdict :=
  match t[0]? with
  | some "da" => some (da t)
  | some "adam" => some (adam t)
  | _ => none

end NutsModel.Drv.C07
