import NutsModel.Drv.Common
import NutsModel.Model.Controller
import NutsModel.Model.InitRetry

namespace NutsModel.Drv.Ctl
open NutsModel NutsModel.Model NutsModel.Drv

def msgOf (code : Nat) : Msg :=
  match code with | 0 => .disc | 1 => .empty | 2 => .cmd .pause | _ => .cmd .resume

/-- make `tryRecv` / `recvBlocking` of the model return the message the real chain observed next -/
def feed (c : Chain) (m : Msg) : Chain :=
  match m with
  | .cmd x => { c with mailbox := [x] }
  | .empty => { c with mailbox := [], alive := true }
  | .disc => { c with mailbox := [], alive := false }

/-- `chain case chain total nev (code val)*`: the event log of one chain task (hook `chain_event`)
    replayed through `chainStep`; the messages the real task received are fed to the model as its
    mailbox, the outcomes of the fallible operations are read off the log.
    Codes: 0 task start, 1 loop top (0 disc, 1 empty, 2 pause, 3 resume), 2 blocking recv, 3 draw computed,
    4 trace slot gone, 5 recorded (value = count), 6 task end (1 = Ok). -/
def chainRec (t : Toks) : Verdict := Id.run do
  let some case := natAt t 1 | return .bad "case"
  let some ch := natAt t 2 | return .bad "chain"
  let some total := natAt t 3 | return .bad "total"
  let some nev := natAt t 4 | return .bad "nev"
  if t.size != 5 + 2 * nev then return .bad "length"
  let ev (k : Nat) : Nat × Nat := ((natAt t (5 + 2 * k)).getD 99, (natAt t (6 + 2 * k)).getD 0)
  let fail (k : Nat) (m : String) : Verdict := .mismatch s!"chain case={case} chain={ch} event#{k}: {m}"
  if nev == 0 then return .ok
  if (ev 0).1 != 0 then return fail 0 "log does not begin with the task start"
  let mut c : Chain := { total := total }
  let mut k := 1
  -- first event after the start: either the first loop top (init ok) or the task end (init failed)
  if k ≥ nev then return .ok          -- run ended (process torn down) before the task logged more
  if (ev k).1 == 6 then
    match chainStep c { initOk := false } with
    | some c' =>
      if c'.phase != .done .err || (ev k).2 != 0 then return fail k "task ended right after start, model expects an initialisation failure"
      return .ok
    | none => return fail k "model has no step"
  if (ev k).1 != 1 then return fail k s!"expected the first loop top, got code {(ev k).1}"
  c := (chainStep (feed c (msgOf (ev k).2)) {}).getD c
  if c.phase != .top (msgOf (ev k).2) then return fail k "model did not reach the loop top with the observed message"
  k := k + 1
  -- iterate
  for _ in [0:nev] do
    if k ≥ nev then return .ok
    let (code, val) := ev k
    match c.phase with
    | .top .disc =>
      if code != 6 || val != 1 then return fail k "after a disconnect the task must end with Ok"
      return .ok
    | .top (.cmd .pause) =>
      if code != 2 then return fail k s!"a paused chain must do a blocking receive, got code {code}"
      if k + 1 ≥ nev then return .ok      -- still blocked when the log was taken
      let (c2, v2) := ev (k + 1)
      if c2 != 1 then return fail (k + 1) "expected the loop top after the blocking receive"
      match chainStep (feed c (msgOf v2)) {} with
      | some c' => c := c'
      | none => return fail (k + 1) "model stays blocked but the chain received a message"
      if c.phase != .top (msgOf v2) then return fail (k + 1) "wrong message after blocking receive"
      k := k + 2
    | .top _ =>
      -- a drawing iteration: (3 draw) then (4 slot gone | 5 recorded | 6 end(err)) ... or 6 directly
      if c.n == c.total then
        if code != 6 || val != 1 then return fail k "all draws recorded: the task must end with Ok"
        return .ok
      if code == 6 then
        -- draw failed (unrecoverable error)
        match chainStep c { drawOk := false } with
        | some c' => if c'.phase != .done .err || val != 0 then return fail k "task ended without a draw: model expects an error result" else return .ok
        | none => return fail k "model has no step"
      if code != 3 then return fail k s!"expected a draw, got code {code}"
      if val != c.n then return fail k s!"draw counter {val}, model has recorded {c.n}"
      if k + 1 ≥ nev then return .ok
      let (c2, v2) := ev (k + 1)
      if c2 == 4 then
        match chainStep { c with slot := false } {} with
        | some c' => if c'.phase != .done .ok then return fail (k + 1) "slot gone: model expects Ok exit" else c := c'
        | none => return fail (k + 1) "model has no step"
        if k + 2 < nev && ((ev (k + 2)).1 != 6 || (ev (k + 2)).2 != 1) then return fail (k + 2) "expected Ok task end after the trace was taken"
        return .ok
      else if c2 == 6 then
        -- record_sample failed
        match chainStep c { recordOk := false } with
        | some c' => if c'.phase != .done .err || v2 != 0 then return fail (k + 1) "model expects an error result after a failed record" else return .ok
        | none => return fail (k + 1) "model has no step"
      else if c2 == 5 then
        if v2 != c.n + 1 then return fail (k + 1) s!"recorded count {v2}, model {c.n + 1}"
        if c.n + 1 == c.total then
          match chainStep c {} with
          | some c' => if c'.phase != .done .ok then return fail (k + 1) "model expects Ok exit after the last draw" else c := c'
          | none => return fail (k + 1) "model has no step"
          if k + 2 < nev && ((ev (k + 2)).1 != 6 || (ev (k + 2)).2 != 1) then return fail (k + 2) "expected Ok task end after the last draw"
          return .ok
        if k + 2 ≥ nev then return .ok
        let (c3, v3) := ev (k + 2)
        if c3 != 1 then return fail (k + 2) s!"expected the next loop top, got code {c3}"
        match chainStep (feed c (msgOf v3)) {} with
        | some c' => c := c'
        | none => return fail (k + 2) "model has no step"
        if c.phase != .top (msgOf v3) || c.n != v2 then return fail (k + 2) "model state after the iteration differs"
        k := k + 3
      else return fail (k + 1) s!"unexpected code {c2} after a draw"
    | _ => return fail k "model is not at a loop top"
  return .ok

/-- `init case nbad last observed`: the first `nbad` initial points of a chain were rejected (recoverable error), every later attempt has
    outcome `last` (0 accepted, 1 unrecoverable error, 2 rejected as well); `observed`: 0 the chain started sampling, 1 it ended with the
    "Unrecoverable error during initialization" error, 2 with "All initialization points failed".  The retry-loop model must agree. -/
def initRec (t : Toks) : Verdict := Id.run do
  let some case := natAt t 1 | return .bad "case"
  let some nbad := natAt t 2 | return .bad "nbad"
  let some last := natAt t 3 | return .bad "last"
  let some observed := natAt t 4 | return .bad "observed"
  let att : Attempt := match last with | 0 => .ok | 1 => .fatal | _ => .bad
  let want : Nat := match chainInit (scenario nbad att) with
    | .started _ => 0 | .fatal _ => 1 | .allFailed => 2 | .noAttempt => 3
  if want != observed then
    return .mismatch s!"init case={case}: {nbad} rejected start points then outcome {last}: the retry-loop model ends in {want}, the chain in {observed} (0 started, 1 unrecoverable, 2 all failed)"
  return .ok

def dispatch (t : Toks) : Option Verdict :=
  match t[0]? with
  | some "chain" => some (chainRec t)
  | some "init" => some (initRec t)
  | _ => none

end NutsModel.Drv.Ctl
