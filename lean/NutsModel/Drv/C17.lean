import NutsModel.Drv.Common
import NutsModel.Model.Kernels

namespace NutsModel.Drv.C17
open NutsModel NutsModel.Model NutsModel.Drv

def eps : Float := 2.220446049250313e-16

/-- same acceptance rule as the harness oracle: NaN ↔ NaN, ±∞ exact, finite within `ulps·ε·scale` -/
def close (imp ref scale ulps : Float) : Bool :=
  if ref.isNaN then imp.isNaN
  else if ref.isInf then imp == ref
  else if imp.isNaN || imp.isInf then !scale.isFinite
  else Float.abs (imp - ref) ≤ ulps * eps * scale + 1e-290

structure Rec where
  name : String
  n : Nat
  sc : Array Float
  ins : Array (Array Float)
  osc : Array Float
  outs : Array (Array Float)

def parse (t : Toks) : Option Rec := do
  let name ← t[1]?
  let n ← natAt t 2
  let nsc ← natAt t 3
  let sc ← fSlice t 4 nsc
  let mut i := 4 + nsc
  let nin ← natAt t i
  i := i + 1
  let mut ins : Array (Array Float) := #[]
  for _ in [0:nin] do
    ins := ins.push (← fSlice t i n)
    i := i + n
  let nos ← natAt t i
  let osc ← fSlice t (i + 1) nos
  i := i + 1 + nos
  let nout ← natAt t i
  i := i + 1
  let mut outs : Array (Array Float) := #[]
  for _ in [0:nout] do
    outs := outs.push (← fSlice t i n)
    i := i + n
  if i != t.size then none
  pure { name, n, sc, ins, osc, outs }

def sumF (n : Nat) (f : Nat → Float) : Float := sumFrom 0.0 n f

def kern (t : Toks) : Verdict := Id.run do
  let some r := parse t | return .bad "kern parse"
  let n := r.n
  let a := r.sc[0]?.getD 0.0
  let inp (j k : Nat) : Float := (r.ins[j]?.getD #[])[k]?.getD 0.0
  let out (j k : Nat) : Float := (r.outs[j]?.getD #[])[k]?.getD 0.0
  let fail (what : String) (k : Nat) (imp ref : Float) : Verdict :=
    .mismatch s!"kern {r.name} n={n} {what}[{k}] model={showF ref} impl={showF imp}"
  match r.name with
  | "axpy" | "axpy_out" =>
    for k in [0:n] do
      let ref := a * inp 0 k + inp 1 k
      if !(close (out 0 k) ref (Float.abs (a * inp 0 k) + Float.abs (inp 1 k)) 4.0) then return fail "out" k (out 0 k) ref
    return .ok
  | "mult" =>
    for k in [0:n] do
      let ref := inp 0 k * inp 1 k
      if !(close (out 0 k) ref (Float.abs ref) 1.0) then return fail "out" k (out 0 k) ref
    return .ok
  | "sp2" | "sp3" | "dot" | "sqnorm" =>
    -- ill-conditioned special-value cancellation in sp3 (the two associations differ): not decidable
    if r.name == "sp3" then
      for k in [0:n] do
        for w in [0:2] do
          let ta := (inp 0 k + inp 2 k - inp 1 k) * inp (3 + w) k
          let tb := (inp 0 k - inp 1 k + inp 2 k) * inp (3 + w) k
          if !(ta == tb || (ta.isNaN && tb.isNaN) || (ta.isFinite && tb.isFinite)) then return .dontcare
    let nout := r.osc.size
    for w in [0:nout] do
      let term : Nat → Float := fun k =>
        if r.name == "sp2" then (inp 0 k + inp 1 k) * inp (2 + w) k
        else if r.name == "sp3" then (inp 0 k + inp 2 k - inp 1 k) * inp (3 + w) k
        else if r.name == "dot" then inp 0 k * inp 1 k
        else (inp 0 k + inp 1 k) * (inp 0 k + inp 1 k)
      let mag : Nat → Float := fun k =>
        let t := Float.abs (term k)
        let inner := if r.name == "sp2" then (Float.abs (inp 0 k) + Float.abs (inp 1 k)) * Float.abs (inp (2 + w) k)
          else if r.name == "sp3" then (Float.abs (inp 0 k) + Float.abs (inp 1 k) + Float.abs (inp 2 k)) * Float.abs (inp (3 + w) k)
          else t
        fmaxF inner t
      let ref := sumF n term
      let scale := sumF n mag
      if !(close r.osc[w]! ref scale (8.0 + n.toFloat)) then return fail "sum" w r.osc[w]! ref
      -- the reduction in the order of the code (four accumulators, lanes, tails), for both lane widths
      if r.name != "sqnorm" then
        for L in [4, 8] do
          let s := simdSum 0.0 L n term
          if !(close r.osc[w]! s scale (8.0 + n.toFloat)) then return fail s!"simdSum(L={L})" w r.osc[w]! s
    return .ok
  | "flow" =>
    let s := Float.sin a
    let c := Float.cos a
    for k in [0:n] do
      let p := inp 0 k
      let v := inp 1 k
      let scale := Float.abs (p * c) + Float.abs (v * s) + Float.abs (p * s) + Float.abs (v * c)
      let rp := p * c + v * s
      let rv := p * (-s) + v * c
      if !(close (out 0 k) rp scale 4.0) then return fail "pos_out" k (out 0 k) rp
      if !(close (out 1 k) rv scale 4.0) then return fail "vel" k (out 1 k) rv
    return .ok
  | "gradflow" =>
    for k in [0:n] do
      let ref := inp 2 k + a * (inp 0 k + inp 1 k)
      let scale := Float.abs (inp 2 k) + Float.abs (a * (inp 0 k + inp 1 k)) + Float.abs (a * inp 0 k) + Float.abs (a * inp 1 k)
      if !(close (out 0 k) ref scale 4.0) then return fail "vel_out" k (out 0 k) ref
    return .ok
  | "finite" =>
    let f := (List.range n).all (fun k => (inp 0 k).isFinite)
    let g := (List.range n).all (fun k => (inp 0 k).isFinite && inp 0 k != 0.0)
    if (r.osc[0]! == 1.0) != f then return fail "all_finite" 0 r.osc[0]! (if f then 1.0 else 0.0)
    if (r.osc[1]! == 1.0) != g then return fail "all_finite_and_nonzero" 0 r.osc[1]! (if g then 1.0 else 0.0)
    return .ok
  | "recip" =>
    for k in [0:n] do
      let ref := 1.0 / inp 0 k
      if !(close (out 0 k) ref (Float.abs ref) 1.0) then return fail "out" k (out 0 k) ref
    return .ok
  | "fill" =>
    for k in [0:n] do
      if !(sameBits (out 0 k) a) then return fail "out" k (out 0 k) a
    return .ok
  | "normalize" =>
    let nrm := Float.sqrt (sumF n (fun k => inp 0 k * inp 0 k))
    for k in [0:n] do
      let ref := inp 0 k * (1.0 / nrm)
      if !(close (out 0 k) ref (Float.abs ref) (16.0 + n.toFloat)) then return fail "out" k (out 0 k) ref
    return .ok
  | "sumln" =>
    let ref := sumF n (fun k => Float.log (inp 0 k))
    let scale := sumF n (fun k => Float.abs (Float.log (inp 0 k)))
    if !(close r.osc[0]! ref scale (8.0 + n.toFloat)) then return fail "sum" 0 r.osc[0]! ref
    return .ok
  | "esh" | "lowrank" => return .ok     -- checked by the harness oracle and by C18 / C02
  | _ => return .bad s!"kern name {r.name}"

def dispatch (t : Toks) : Option Verdict :=
  match t[0]? with
  | some "kern" => some (kern t)
  | _ => none

end NutsModel.Drv.C17
