-- Root of the `NutsModel` library: executable models and driver parts only (no Mathlib).
import NutsModel.Scalar
import NutsModel.Gen.Numeric
import NutsModel.Drv.Common
import NutsModel.Drv.C07
import NutsModel.Model.StepSizeSearch
import NutsModel.Model.Rand
import NutsModel.Model.Tree
import NutsModel.Drv.C01
import NutsModel.Model.Schedule
import NutsModel.Drv.C06
import NutsModel.Model.Kernels
import NutsModel.Drv.C17
import NutsModel.Model.StatsSchema
import NutsModel.Gen.Schema
import NutsModel.Model.Stats
import NutsModel.Drv.C16
