#!/usr/bin/env python3
"""rs2lean -- a deliberately small Rust-subset -> Lean 4 translator.

It regenerates, from /repo's *current* source text, the Lean definitions of the scalar leaf
functions of nuts-rs (see DESIGN.md section 2.3).  The generated definitions are polymorphic in
the scalar type (NutsModel/Scalar.lean), executed at Float by the driver and reasoned about at
Real by the theorem files.

Anything outside the supported subset raises Untranslatable(file:line construct); callers treat
that exactly like a failed proof obligation -- nothing is ever skipped silently.

Subset: struct declarations over f64 / integer / bool / Option / other translated structs,
`fn`s with scalar / `self` / `&self` / `&mut self` parameters, `let`, assignment and compound
assignment to locals and to `self.field`, `if / else if / else` (statement and expression),
`return`, `match` on an Option-like scrutinee, arithmetic, comparisons, boolean operators,
`as f64`/`as u64`/`as i32` casts, the f64 methods listed in F64_METHODS, struct literals
(with `..base`), calls to other translated functions.
"""
import re
import sys
import os


class Untranslatable(Exception):
    pass


# ------------------------------------------------------------------ tokenizer

TOKEN_RE = re.compile(r"""
    (?P<ws>\s+)
  | (?P<lcomment>//[^\n]*)
  | (?P<bcomment>/\*.*?\*/)
  | (?P<float>(?:\d[\d_]*\.\d[\d_]*(?:[eE][+-]?\d+)?|\d[\d_]*[eE][+-]?\d+|\d[\d_]*\.(?![\.\w])|\d[\d_]*(?=f64|f32))(?:_?f64|_?f32)?)
  | (?P<int>\d[\d_]*(?:_?(?:u64|u32|usize|i64|i32|u8|i8|u16|i16|isize))?)
  | (?P<str>"(?:[^"\\]|\\.)*")
  | (?P<char>'(?:[^'\\]|\\.)')
  | (?P<lifetime>'[A-Za-z_]\w*)
  | (?P<ident>[A-Za-z_]\w*)
  | (?P<punct>::|->|=>|==|!=|<=|>=|&&|\|\||\+=|-=|\*=|/=|\.\.=|\.\.|[-+*/%=<>!&|^.,;:(){}\[\]#?@])
""", re.X | re.S)


class Tok:
    __slots__ = ("kind", "text", "line")

    def __init__(self, kind, text, line):
        self.kind, self.text, self.line = kind, text, line

    def __repr__(self):
        return f"{self.kind}:{self.text}@{self.line}"


def tokenize(src, fname="<src>"):
    toks = []
    pos = 0
    line = 1
    while pos < len(src):
        m = TOKEN_RE.match(src, pos)
        if not m:
            raise Untranslatable(f"{fname}:{line}: cannot tokenize {src[pos:pos+20]!r}")
        kind = m.lastgroup
        text = m.group()
        if kind not in ("ws", "lcomment", "bcomment"):
            toks.append(Tok(kind, text, line))
        line += text.count("\n")
        pos = m.end()
    toks.append(Tok("eof", "", line))
    return toks


# ------------------------------------------------------------------ parser

class Parser:
    def __init__(self, toks, fname):
        self.t = toks
        self.i = 0
        self.fname = fname

    def err(self, msg):
        tok = self.t[self.i]
        raise Untranslatable(f"{self.fname}:{tok.line}: {msg} (at {tok.text!r})")

    @property
    def cur(self):
        return self.t[self.i]

    def peek(self, k=1):
        return self.t[min(self.i + k, len(self.t) - 1)]

    def at(self, text):
        return self.cur.text == text and self.cur.kind in ("punct", "ident")

    def eat(self, text):
        if self.at(text):
            self.i += 1
            return True
        return False

    def expect(self, text):
        if not self.eat(text):
            self.err(f"expected {text!r}")

    def ident(self):
        if self.cur.kind != "ident":
            self.err("expected identifier")
        s = self.cur.text
        self.i += 1
        return s

    # ---- types
    def ty(self):
        if self.eat("&"):
            if self.cur.kind == "lifetime":
                self.i += 1
            self.eat("mut")
            return self.ty()
        if self.eat("("):
            items = []
            while not self.at(")"):
                items.append(self.ty())
                if not self.eat(","):
                    break
            self.expect(")")
            return ("tuple", items)
        if self.eat("["):
            inner = self.ty()
            if self.eat(";"):
                self.expr()
            self.expect("]")
            return ("slice", inner)
        if self.at("fn") and self.peek().text == "(":
            self.i += 1
            self.expect("(")
            while not self.at(")"):
                self.ty()
                if not self.eat(","):
                    break
            self.expect(")")
            if self.eat("->"):
                self.ty()
            return ("fnptr",)
        name = self.ident()
        while self.eat("::"):
            name = self.ident()
        args = []
        if self.eat("<"):
            while not self.at(">"):
                if self.cur.kind == "lifetime":
                    self.i += 1
                else:
                    args.append(self.ty())
                if not self.eat(","):
                    break
            self.expect(">")
        return ("path", name, args)

    # ---- expressions (Pratt)
    BINOPS = {
        "||": 1, "&&": 2,
        "==": 3, "!=": 3, "<": 3, ">": 3, "<=": 3, ">=": 3,
        "|": 4, "^": 5, "&": 6,
        "+": 8, "-": 8, "*": 9, "/": 9, "%": 9,
    }

    def expr(self, minp=0, nostruct=False):
        lhs = self.unary(nostruct)
        while True:
            op = self.cur.text
            if self.cur.kind == "ident" and op == "as":
                # `as` binds tighter than any binary operator
                self.i += 1
                lhs = ("cast", lhs, self.ty())
                continue
            if self.cur.kind != "punct" or op not in self.BINOPS:
                break
            p = self.BINOPS[op]
            if p < minp:
                break
            self.i += 1
            rhs = self.expr(p + 1, nostruct)
            lhs = ("bin", op, lhs, rhs)
        return lhs

    def unary(self, nostruct):
        line = self.cur.line
        if self.eat("-"):
            return ("neg", self.unary_cast(nostruct))
        if self.eat("!"):
            return ("not", self.unary_cast(nostruct))
        if self.eat("*"):
            return ("deref", self.unary_cast(nostruct))
        if self.eat("&"):
            self.eat("mut")
            return ("ref", self.unary_cast(nostruct))
        return self.postfix(self.primary(nostruct), nostruct)

    def unary_cast(self, nostruct):
        e = self.unary(nostruct)
        while self.cur.kind == "ident" and self.cur.text == "as":
            self.i += 1
            e = ("cast", e, self.ty())
        return e

    def postfix(self, e, nostruct):
        while True:
            if self.at(".") :
                nxt = self.peek()
                if nxt.kind == "ident":
                    self.i += 2
                    name = nxt.text
                    if self.at("("):
                        args = self.args()
                        e = ("mcall", e, name, args)
                    else:
                        e = ("field", e, name)
                    continue
                if nxt.kind == "int":
                    self.i += 2
                    e = ("tfield", e, int(nxt.text))
                    continue
                self.err("unsupported postfix after '.'")
            if self.at("("):
                e = ("call", e, self.args())
                continue
            if self.at("?"):
                self.err("`?` operator is outside the subset")
            if self.at("["):
                self.i += 1
                idx = self.expr()
                self.expect("]")
                e = ("index", e, idx)
                continue
            return e

    def args(self):
        self.expect("(")
        out = []
        while not self.at(")"):
            out.append(self.expr())
            if not self.eat(","):
                break
        self.expect(")")
        return out

    def primary(self, nostruct):
        tok = self.cur
        if tok.kind == "float":
            self.i += 1
            return ("flit", tok.text)
        if tok.kind == "int":
            self.i += 1
            return ("ilit", tok.text)
        if tok.kind == "str":
            self.i += 1
            return ("slit", tok.text)
        if self.eat("("):
            items = []
            trailing = False
            while not self.at(")"):
                items.append(self.expr())
                trailing = self.eat(",")
                if not trailing:
                    break
            self.expect(")")
            if len(items) == 1 and not trailing:
                return ("paren", items[0])
            return ("tuple", items)
        if self.at("if"):
            return self.if_expr()
        if self.at("match"):
            return self.match_expr()
        if self.at("{"):
            return ("block", self.block())
        if tok.kind == "ident":
            path = [self.ident()]
            while self.at("::"):
                self.i += 1
                if self.at("<"):
                    self.err("turbofish outside subset")
                path.append(self.ident())
            if self.at("!"):
                # macro call: assert!, panic!, debug_assert!
                self.i += 1
                margs = self.macro_args()
                return ("macro", path[-1], margs)
            if self.at("{") and not nostruct and path[-1][0].isupper():
                return self.struct_lit(path)
            return ("path", path)
        self.err("unsupported expression")

    def macro_args(self):
        # capture tokens up to the matching close paren; parse as expr list if possible
        open_ = self.cur.text
        close = {"(": ")", "[": "]", "{": "}"}.get(open_)
        if close is None:
            self.err("macro delimiter")
        depth = 0
        start = self.i
        while True:
            t = self.cur.text
            if self.cur.kind == "punct" and t in "([{":
                depth += 1
            elif self.cur.kind == "punct" and t in ")]}":
                depth -= 1
                if depth == 0:
                    self.i += 1
                    break
            elif self.cur.kind == "eof":
                self.err("unterminated macro")
            self.i += 1
        inner = self.t[start + 1:self.i - 1] + [Tok("eof", "", self.cur.line)]
        sub = Parser(inner, self.fname)
        try:
            args = []
            while sub.cur.kind != "eof":
                args.append(sub.expr())
                if not sub.eat(","):
                    break
            return args
        except Untranslatable:
            return None

    def struct_lit(self, path):
        self.expect("{")
        fields = []
        base = None
        while not self.at("}"):
            if self.eat(".."):
                base = self.expr()
                break
            name = self.ident()
            if self.eat(":"):
                val = self.expr()
            else:
                val = ("path", [name])
            fields.append((name, val))
            if not self.eat(","):
                break
        self.expect("}")
        return ("struct", path, fields, base)

    def if_expr(self):
        self.expect("if")
        if self.at("let"):
            self.i += 1
            pat = self.pattern()
            self.expect("=")
            scrut = self.expr(nostruct=True)
            then = self.block()
            els = None
            if self.eat("else"):
                els = [("expr", self.if_expr())] if self.at("if") else self.block()
            return ("iflet", pat, scrut, then, els)
        cond = self.expr(nostruct=True)
        then = self.block()
        els = None
        if self.eat("else"):
            if self.at("if"):
                els = [("expr", self.if_expr())]
            else:
                els = self.block()
        return ("if", cond, then, els)

    def pattern(self):
        # very small pattern language
        if self.eat("_"):
            return ("pwild",)
        if self.eat("("):
            items = []
            while not self.at(")"):
                items.append(self.pattern())
                if not self.eat(","):
                    break
            self.expect(")")
            return ("ptuple", items)
        if self.cur.kind in ("int", "float"):
            t = self.cur
            self.i += 1
            return ("plit", t.text)
        self.eat("&")
        self.eat("ref")
        self.eat("mut")
        path = [self.ident()]
        while self.eat("::"):
            path.append(self.ident())
        if self.at("("):
            self.i += 1
            subs = []
            while not self.at(")"):
                subs.append(self.pattern())
                if not self.eat(","):
                    break
            self.expect(")")
            return ("pctor", path, subs)
        if len(path) == 1 and (path[0][0].islower() or path[0] == "_"):
            return ("pvar", path[0])
        return ("pctor", path, [])

    def match_expr(self):
        self.expect("match")
        scrut = self.expr(nostruct=True)
        self.expect("{")
        arms = []
        while not self.at("}"):
            pat = self.pattern()
            while self.eat("|"):
                self.err("or-patterns outside subset")
            self.expect("=>")
            if self.at("{"):
                body = ("block", self.block())
                self.eat(",")
            elif self.at("return"):
                line = self.cur.line
                self.i += 1
                val = None if (self.at(",") or self.at("}")) else self.expr()
                body = ("block", [("return", val, line)])
                self.eat(",")
            else:
                body = self.expr()
                if not self.eat(","):
                    pass
            arms.append((pat, body))
        self.expect("}")
        return ("match", scrut, arms)

    # ---- statements
    def block(self):
        self.expect("{")
        stmts = []
        while not self.at("}"):
            stmts.append(self.stmt())
        self.expect("}")
        return stmts

    def stmt(self):
        line = self.cur.line
        if self.at("#"):
            # attribute on a statement
            self.i += 1
            self.expect("[")
            depth = 1
            while depth:
                if self.at("["):
                    depth += 1
                if self.at("]"):
                    depth -= 1
                self.i += 1
            return self.stmt()
        if self.eat("let"):
            mut = self.eat("mut")
            pat = self.pattern()
            ty = None
            if self.eat(":"):
                ty = self.ty()
            self.expect("=")
            val = self.expr()
            if self.at("else"):
                self.err("let-else outside subset")
            self.expect(";")
            return ("let", pat, val, mut, ty, line)
        if self.eat("return"):
            val = None
            if not self.at(";"):
                val = self.expr()
            self.eat(";")
            return ("return", val, line)
        if self.at("use"):
            while not self.eat(";"):
                self.i += 1
            return ("nop",)
        if self.at("for") or self.at("while") or self.at("loop"):
            self.err("loops are outside the subset")
        e = self.expr()
        if self.cur.kind == "punct" and self.cur.text in ("=", "+=", "-=", "*=", "/="):
            op = self.cur.text
            self.i += 1
            rhs = self.expr()
            self.expect(";")
            return ("assign", op, e, rhs, line)
        if self.eat(";"):
            return ("exprstmt", e, line)
        # tail expression or block-like expression statement
        if e[0] in ("if", "iflet", "match", "block") and not self.at("}"):
            return ("exprstmt", e, line)
        return ("expr", e, line)


# ------------------------------------------------------------------ item extraction

def strip_comments(src):
    return re.sub(r"//[^\n]*", lambda m: " " * len(m.group()), src)


def find_matching(src, start, open_="{", close="}"):
    depth = 0
    i = start
    n = len(src)
    while i < n:
        c = src[i]
        if c == '"':
            i += 1
            while i < n and src[i] != '"':
                if src[i] == "\\":
                    i += 1
                i += 1
        elif c == open_:
            depth += 1
        elif c == close:
            depth -= 1
            if depth == 0:
                return i
        i += 1
    raise Untranslatable("unbalanced braces")


class RustFile:
    def __init__(self, path):
        self.path = path
        self.raw = open(path).read()
        self.src = strip_comments(self.raw)

    def line_of(self, pos):
        return self.src.count("\n", 0, pos) + 1

    def struct_decl(self, name):
        m = re.search(r"\bstruct\s+%s\b[^;{(]*\{" % re.escape(name), self.src)
        if not m:
            raise Untranslatable(f"{self.path}: struct {name} not found")
        end = find_matching(self.src, m.end() - 1)
        # attributes directly above (derive etc.)
        head_start = m.start()
        pre = self.src[:head_start]
        attrs = []
        while True:
            mm = re.search(r"(#\[[^\]]*\]|pub(\([a-z]+\))?)\s*$", pre)
            if not mm:
                break
            attrs.insert(0, mm.group(1))
            pre = pre[:mm.start()]
        body = self.src[m.end():end]
        return attrs, body, self.line_of(m.start())

    def impl_fn(self, type_name, fn_name, trait=None):
        """source text `fn name(...) -> T { ... }` inside `impl [Trait for] Type`."""
        if type_name is None:
            pats = [(0, len(self.src))]
        else:
            pats = []
            for m in re.finditer(r"\bimpl\b[^{;]*?\b%s\b[^{;]*\{" % re.escape(type_name), self.src):
                head = m.group()
                if trait is not None and not re.search(r"\b%s\b" % re.escape(trait), head):
                    continue
                if trait is None and re.search(r"\bfor\b", head) and not re.search(r"\bfor\s+%s\b" % re.escape(type_name), head):
                    continue
                # make sure type_name is the implementing type, not a generic argument only
                end = find_matching(self.src, m.end() - 1)
                pats.append((m.end(), end))
        for (a, b) in pats:
            for m in re.finditer(r"\bfn\s+%s\b" % re.escape(fn_name), self.src[a:b]):
                s = a + m.start()
                brace = self.src.index("{", s)
                # generics/where clauses may contain no braces in our subset
                e = find_matching(self.src, brace)
                return self.src[s:e + 1], self.line_of(s)
        raise Untranslatable(f"{self.path}: fn {type_name}::{fn_name} not found")


def parse_fn(text, fname, line0):
    toks = tokenize(text, fname)
    for t in toks:
        t.line += line0 - 1
    p = Parser(toks, fname)
    p.expect("fn")
    name = p.ident()
    if p.at("<"):
        # generics: skip to matching '>'
        depth = 0
        while True:
            if p.at("<"):
                depth += 1
            if p.at(">"):
                depth -= 1
                if depth == 0:
                    p.i += 1
                    break
            p.i += 1
    p.expect("(")
    params = []
    selfkind = None
    while not p.at(")"):
        if p.at("&") and p.peek().text in ("self", "mut"):
            p.i += 1
            if p.eat("mut"):
                selfkind = "mut"
            else:
                selfkind = "ref"
            p.expect("self")
        elif p.at("self"):
            p.i += 1
            selfkind = "own"
        elif p.at("mut") and p.peek().text == "self":
            p.i += 2
            selfkind = "mut_own"
        else:
            p.eat("mut")
            pname = p.ident()
            p.expect(":")
            pty = p.ty()
            params.append((pname, pty))
        if not p.eat(","):
            break
    p.expect(")")
    ret = None
    if p.eat("->"):
        ret = p.ty()
    if p.at("where"):
        while not p.at("{"):
            p.i += 1
    body = p.block()
    return {"name": name, "self": selfkind, "params": params, "ret": ret, "body": body}


def parse_struct_fields(body, fname, line0):
    toks = tokenize(body, fname)
    for t in toks:
        t.line += line0 - 1
    p = Parser(toks, fname)
    fields = []
    while p.cur.kind != "eof":
        attrs = []
        while p.at("#"):
            p.i += 1
            p.expect("[")
            depth = 1
            start = p.i
            while depth:
                if p.at("["):
                    depth += 1
                if p.at("]"):
                    depth -= 1
                p.i += 1
            attrs.append(" ".join(t.text for t in p.t[start:p.i - 1]))
        if p.eat("pub"):
            if p.at("("):
                while not p.eat(")"):
                    p.i += 1
        name = p.ident()
        p.expect(":")
        ty = p.ty()
        fields.append((name, ty, attrs))
        if not p.eat(","):
            break
    return fields


# ------------------------------------------------------------------ Lean emission

SCALAR_CTX = ("variable {α : Type} [Add α] [Sub α] [Mul α] [Div α] [Neg α] [NatCast α] "
              "[OfScientific α]\n  [LT α] [LE α] [DecidableLT α] [DecidableLE α] [Transc α]")

F64_METHODS = {
    "ln": ("Transc.log", 0), "exp": ("Transc.exp", 0), "ln_1p": ("Transc.log1p", 0),
    "sqrt": ("Transc.sqrt", 0), "powf": ("Transc.rpow", 1), "abs": ("Transc.abs", 0),
    "sin": ("Transc.sin", 0), "cos": ("Transc.cos", 0), "round": ("Transc.round", 0),
    "min": ("fmin", 1), "max": ("fmax", 1),
}
INT_TYPES = {"u64", "usize", "u32", "i32", "u8", "u16", "i64", "isize"}
FLOAT_CONSTS = {("f64", "consts", "PI"): "(Transc.pi : α)", ("consts", "PI"): "(Transc.pi : α)",
                ("PI",): "(Transc.pi : α)"}

LEAN_KEYWORDS = {"end", "from", "at", "open", "in", "then", "do", "fun", "have", "show", "with",
                 "def", "theorem", "structure", "where", "instance", "variable", "local", "prefix"}


def lname(s):
    return s + "_" if s in LEAN_KEYWORDS else s


class Emitter:
    """Translate parsed functions into Lean text.  Types: 'f' float, 'n' nat, 'b' bool,
    ('s', Name) struct, ('o', T) option, None unknown."""

    def __init__(self, structs, fnsigs, fname):
        self.structs = structs      # name -> [(field, type)]
        self.fnsigs = fnsigs        # (Type or None, fn) -> (lean_name, ret_type, selfkind)
        self.fname = fname

    def bad(self, line, what):
        raise Untranslatable(f"{self.fname}:{line}: {what}")

    def conv_ty(self, ty):
        if ty is None:
            return None
        if ty[0] == "path":
            n = ty[1]
            if n in ("f64", "f32"):
                return "f"
            if n in INT_TYPES:
                return "n"
            if n == "bool":
                return "b"
            if n == "Self":
                return ("s", self.self_name)
            if n == "Option":
                return ("o", self.conv_ty(ty[2][0]))
            if n == "Vec" and len(ty) > 2 and ty[2]:
                return ("l", self.conv_ty(ty[2][0]))
            if n == "Result":
                return "r"          # Result<(), E> of a &mut self method: modelled as a Status beside the new self
            if n in self.structs:
                return ("s", n)
            return ("x", n)
        if ty[0] == "tuple":
            return ("t", [self.conv_ty(t) for t in ty[1]])
        return ("x", str(ty))

    def lean_ty(self, t):
        if t == "f":
            return "α"
        if t == "n":
            return "Nat"
        if t == "b":
            return "Bool"
        if t == "u":
            return "Unit"
        if t == "z":
            return "Int"
        if t == "r":
            return "Status"
        if t == "res":
            return "InitRes"
        if t is None:
            return "_"
        if t[0] == "s":
            return f"({t[1]} α)"
        if t[0] == "o":
            return f"(Option {self.lean_ty(t[1])})"
        if t[0] == "l":
            return f"(List {self.lean_ty(t[1])})"
        if t[0] == "i":
            return t[1]
        if t[0] == "t":
            if not t[1]:
                return "Unit"
            return "(" + " × ".join(self.lean_ty(x) for x in t[1]) + ")"
        raise Untranslatable(f"{self.fname}: type {t} outside subset")

    # ---- calls on interface objects (hand-written abstract Lean structures standing for sub-strategies)
    def iface_call(self, recv_t, name, args, env):
        """-> (lean function, kept argument texts, return type, pure?)"""
        table = getattr(self, "iface", {}).get(recv_t[1], {})
        if name not in table:
            raise Untranslatable(f"{self.fname}: method .{name} is not in the interface table of {recv_t[1]}")
        fn_, keep, ret, pure = table[name]
        kept = [self.expr(args[k], env)[0] for k in keep]
        return fn_, kept, ret, pure

    def has_effect(self, e, env):
        """does the expression contain a mutating interface call?"""
        if not isinstance(e, tuple):
            return False
        if e and e[0] == "mcall":
            try:
                _, rt = self.expr(e[1], env)
            except Untranslatable:
                rt = None
            if rt and rt[0] == "i":
                table = getattr(self, "iface", {}).get(rt[1], {})
                if e[2] in table and not table[e[2]][3]:
                    return True
        for x in e:
            if isinstance(x, tuple) and self.has_effect(x, env):
                return True
            if isinstance(x, list):
                for y in x:
                    if isinstance(y, tuple) and self.has_effect(y, env):
                        return True
        return False

    def effect_call(self, e, env, pad, lines):
        """emit a mutating interface call `recv.m(args)`; returns (text of its value or None, type)"""
        rs, rt = self.expr(e[1], env)
        fn_, kept, ret, pure = self.iface_call(rt, e[2], e[3], env)
        call = " ".join([fn_, rs, "orc"] + kept)
        if e[1][0] == "field" and e[1][1][0] == "path":
            base, _ = self.expr(e[1][1], env)
            upd = lambda v: f"{pad}{base} := {{ {base} with {lname(e[1][2])} := {v} }}"
        elif e[1][0] == "path":
            upd = lambda v: f"{pad}{rs} := {v}"
        else:
            self.bad(0, "receiver of interface call")
        if ret is None:
            lines.append(upd(call))
            return None, None
        self.tmp = getattr(self, "tmp", 0) + 1
        v, o = f"r{self.tmp}", f"o{self.tmp}"
        lines.append(f"{pad}let ({v}, {o}) := {call}")
        lines.append(upd(o))
        return v, ret

    # ---- expressions: return (lean_text, type)
    def flit(self, text):
        t = text.replace("_", "")
        t = re.sub(r"f64$|f32$", "", t)
        if re.fullmatch(r"\d+\.?", t) or re.fullmatch(r"\d+\.0*", t):
            n = int(t.split(".")[0])
            return f"((({n} : Nat) : α))"
        m = re.fullmatch(r"(\d+)\.?(\d*)(?:[eE]([+-]?\d+))?", t)
        if not m:
            raise Untranslatable(f"{self.fname}: float literal {text}")
        ip, fp, ex = m.group(1), m.group(2), int(m.group(3) or 0)
        mant = int(ip + fp)
        e10 = ex - len(fp)
        if e10 >= 0:
            return f"((({mant * 10 ** e10} : Nat) : α))"
        return f"(OfScientific.ofScientific {mant} true {-e10} : α)"

    def expr(self, e, env, want=None):
        k = e[0]
        if k == "paren":
            s, t = self.expr(e[1], env, want)
            return f"({s})", t
        if k == "flit":
            return self.flit(e[1]), "f"
        if k == "ilit":
            txt = re.sub(r"_?(u64|u32|usize|i64|i32|u8|i8|u16|i16|isize)$", "", e[1]).replace("_", "")
            return f"({txt} : Nat)", "n"
        if k == "path":
            p = tuple(e[1])
            if len(p) == 1 and p[0] in env:
                return lname(p[0]), env[p[0]]
            if p in FLOAT_CONSTS or p[-2:] in FLOAT_CONSTS:
                return FLOAT_CONSTS.get(p, FLOAT_CONSTS.get(p[-2:])), "f"
            if p[-1] == "NEG_INFINITY":
                return "(Neg.neg (Transc.exp ((((1000000 : Nat) : α)))))", "f"
            if p == ("true",):
                return "true", "b"
            if p == ("false",):
                return "false", "b"
            if p == ("None",):
                return "none", ("o", None)
            raise Untranslatable(f"{self.fname}: unknown name {'::'.join(p)}")
        if k == "field":
            if e[1][0] == "path" and len(e[1][1]) == 1 and isinstance(env.get(e[1][1][0]), tuple) and env[e[1][1][0]][0] == "ext":
                ext = env[e[1][1][0]]
                if e[2] in ext[1]:
                    return f"{lname(e[1][1][0])}_{e[2]}", ext[1][e[2]]
                raise Untranslatable(f"{self.fname}: field .{e[2]} on external object {e[1][1][0]}")
            s, t = self.expr(e[1], env)
            if t and t[0] == "s":
                for (fn_, ft) in self.structs[t[1]]:
                    if fn_ == e[2]:
                        return f"{s}.{lname(e[2])}", ft
            raise Untranslatable(f"{self.fname}: field .{e[2]} on {t}")
        if k == "neg":
            s, t = self.expr(e[1], env)
            if t != "f":
                raise Untranslatable(f"{self.fname}: unary minus on non-float")
            return f"(-{s})", "f"
        if k == "not":
            s, t = self.expr(e[1], env)
            return f"(!{s})", "b"
        if k in ("deref", "ref"):
            return self.expr(e[1], env, want)
        if k == "cast":
            s, t = self.expr(e[1], env)
            to = self.conv_ty(e[2])
            if to == "f" and t == "n":
                return f"(({s} : Nat) : α)", "f"
            if to == "n" and t == "n":
                return s, "n"
            if to == "n" and t == "f":
                return f"(Transc.toNat {s})", "n"
            if to == "f" and t == "f":
                return s, "f"
            raise Untranslatable(f"{self.fname}: cast {t} as {to}")
        if k == "bin":
            op = e[1]
            a, ta = self.expr(e[2], env)
            b, tb = self.expr(e[3], env)
            if op in ("+", "-", "*", "/", "%"):
                if ta != tb or ta not in ("f", "n"):
                    raise Untranslatable(f"{self.fname}: arithmetic on {ta},{tb}")
                return f"({a} {op} {b})", ta
            if op in ("<", ">", "<=", ">="):
                lop = {"<": "<", ">": ">", "<=": "≤", ">=": "≥"}[op]
                return f"(decide ({a} {lop} {b}))", "b"
            if op in ("==", "!="):
                if ta == "z" and tb == "n":
                    b = f"(({b} : Nat) : Int)"
                if tb == "z" and ta == "n":
                    a = f"(({a} : Nat) : Int)"
                if ta == "f":
                    s = f"(decide (feq {a} {b}))"
                else:
                    s = f"({a} == {b})"
                return (s if op == "==" else f"(!{s})"), "b"
            if op in ("&&", "&"):
                return f"({a} && {b})", "b"
            if op in ("||", "|"):
                return f"({a} || {b})", "b"
            raise Untranslatable(f"{self.fname}: operator {op}")
        if k == "mcall":
            recv, name, args = e[1], e[2], e[3]
            if recv[0] == "path" and len(recv[1]) == 1 and isinstance(env.get(recv[1][0]), tuple) \
                    and env[recv[1][0]][0] == "ext":
                ext = env[recv[1][0]]
                if name in ext[1] and not args:
                    return f"{lname(recv[1][0])}_{name}", ext[1][name]
                raise Untranslatable(f"{self.fname}: method .{name} on external object {recv[1][0]}")
            rs, rt = self.expr(recv, env)
            if rt and rt[0] == "i":
                fn_, kept, ret, pure = self.iface_call(rt, name, args, env)
                if not pure:
                    raise Untranslatable(f"{self.fname}: mutating interface call .{name} in expression position")
                return "(" + " ".join([fn_, rs] + kept) + ")", ret
            if rt == "f" and name in F64_METHODS:
                fn_, nargs = F64_METHODS[name]
                if len(args) != nargs:
                    raise Untranslatable(f"{self.fname}: arity of .{name}")
                argss = [self.expr(a, env)[0] for a in args]
                return "(" + " ".join([fn_, rs] + argss) + ")", "f"
            if rt == "f" and name == "powi":
                a, ta = self.expr(args[0], env)
                return f"(Transc.powi {rs} {a})", "f"
            if rt == "f" and name == "recip":
                return f"(((1 : Nat) : α) / {rs})", "f"
            if rt == "f" and name == "clamp" and len(args) == 2:
                a, _ = self.expr(args[0], env)
                b, _ = self.expr(args[1], env)
                return f"(fclamp {rs} {a} {b})", "f"
            if rt == "f" and name == "is_finite":
                return f"(Transc.isFinite {rs})", "b"
            if rt == "z" and name == "abs" and not args:
                return f"(Int.natAbs {rs})", "n"
            if rt and rt[0] == "o" and name in ("is_some", "is_none") and not args:
                return f"(Option.{'isSome' if name == 'is_some' else 'isNone'} {rs})", "b"
            if rt == "n" and name == "saturating_sub":
                a, _ = self.expr(args[0], env)
                return f"({rs} - {a})", "n"
            if rt == "n" and name in ("max", "min"):
                a, _ = self.expr(args[0], env)
                return f"(Nat.{name} {rs} {a})", "n"
            if rt and rt[0] == "s" and (rt[1], name) in self.fnsigs:
                ln, ret, sk = self.fnsigs[(rt[1], name)]
                argss = [self.expr(a, env)[0] for a in args]
                if sk in ("mut",):
                    raise Untranslatable(f"{self.fname}: &mut method call .{name} in expression position")
                return "(" + " ".join([ln, rs] + argss) + ")", ret
            raise Untranslatable(f"{self.fname}: method .{name} on {rt}")
        if k == "call":
            f = e[1]
            if f[0] == "path":
                p = f[1]
                key = (p[-2] if len(p) > 1 else None, p[-1])
                if key[0] == "Self":
                    key = (self.self_name, p[-1])
                if key in self.fnsigs:
                    ln, ret, sk = self.fnsigs[key]
                    argss = [self.expr(a, env)[0] for a in e[2]]
                    return "(" + " ".join([ln] + argss) + ")", ret
                ctor = getattr(self, "iface_ctors", {}).get((p[-2] if len(p) > 1 else None, p[-1]))
                if ctor is not None:
                    return ctor[0], ("i", ctor[1])
                if p[-1] == "Ok" and len(e[2]) == 1 and e[2][0] == ("tuple", []):
                    return "Status.ok", "r"
                if p[-1] == "Err" and len(e[2]) == 1:
                    return "Status.err", "r"
                if p[-1] == "Some" and len(e[2]) == 1:
                    s, t = self.expr(e[2][0], env)
                    return f"(some {s})", ("o", t)
            raise Untranslatable(f"{self.fname}: call {f}")
        if k == "struct":
            name = e[1][-1]
            if name == "Self":
                name = self.self_name
            if name not in self.structs:
                raise Untranslatable(f"{self.fname}: struct literal {name}")
            ftypes = dict(self.structs[name])
            parts = []
            for (fn_, fe) in e[2]:
                s, t = self.expr(fe, env, ftypes.get(fn_))
                parts.append(f"{lname(fn_)} := {s}")
            if e[3] is not None:
                b, _ = self.expr(e[3], env)
                return "{ " + b + " with " + ", ".join(parts) + " }", ("s", name)
            return "({ " + ", ".join(parts) + f" }} : {name} α)", ("s", name)
        if k == "if":
            c, _ = self.expr(e[1], env)
            ts, tt = self.block_expr(e[2], env)
            if e[3] is None:
                raise Untranslatable(f"{self.fname}: if-expression without else")
            es, et = self.block_expr(e[3], env)
            return f"(if {c} then {ts} else {es})", tt or et
        if k == "block":
            return self.block_expr(e[1], env)
        raise Untranslatable(f"{self.fname}: expression kind {k}")

    def block_expr(self, stmts, env):
        """a block used as a pure expression: lets followed by a tail expression."""
        env = dict(env)
        out = []
        for st in stmts[:-1]:
            if st[0] == "let" and st[1][0] == "pvar" and not st[3]:
                s, t = self.expr(st[2], env)
                env[st[1][1]] = t
                out.append(f"let {lname(st[1][1])} := {s}; ")
            elif st[0] == "nop":
                continue
            else:
                raise Untranslatable(f"{self.fname}: statement {st[0]} inside expression block")
        last = stmts[-1]
        if last[0] != "expr":
            raise Untranslatable(f"{self.fname}: expression block without tail value")
        s, t = self.expr(last[1], env)
        return "(" + "".join(out) + s + ")", t

    # ---- statements in `Id.run do` style
    def stmts(self, stmts, env, ind, ret_self, ret_ty, tail=True):
        lines = []
        pad = "  " * ind
        n = len(stmts)
        for idx, st in enumerate(stmts):
            k = st[0]
            last = idx == n - 1
            if k == "nop":
                continue
            if k == "let":
                pat = st[1]
                if pat[0] != "pvar":
                    self.bad(st[5], "destructuring let")
                if self.mentions_dropped(st[2], env):
                    env[pat[1]] = ("dropped",)
                    lines.append(f"{pad}-- let {pat[1]} = ..  [value of a parameter that is not modelled]")
                    continue
                if st[2][0] == "if" and self.has_effect(st[2], env):
                    # let x = if c { ..effects..; v1 } else { v2 }   ->   let mut x := default; if c then ..; x := v1 else x := v2
                    e = st[2]
                    name = pat[1]
                    c, _ = self.expr(e[1], env)
                    vt = self.tail_type(e[3], env) or self.tail_type(e[2], env)
                    dflt = {"b": "false", "n": "(0 : Nat)"}.get(vt)
                    if dflt is None or e[3] is None:
                        self.bad(st[5], "effectful if-expression of this type")
                    env[name] = vt
                    lines.append(f"{pad}let mut {lname(name)} := {dflt}")
                    lines.append(f"{pad}if {c} then")
                    lines += self.branch_assign(e[2], env, ind + 1, lname(name), ret_self, ret_ty)
                    lines.append(f"{pad}else")
                    lines += self.branch_assign(e[3], env, ind + 1, lname(name), ret_self, ret_ty)
                    continue
                s, t = self.expr(st[2], env)
                name = pat[1]
                env[name] = t
                kw = "let mut" if st[3] else "let"
                lines.append(f"{pad}{kw} {lname(name)} := {s}")
                continue
            if k == "assign":
                op, lhs, rhs, line = st[1], st[2], st[3], st[4]
                if lhs[0] == "deref":
                    lhs = lhs[1]
                if lhs[0] == "field" and lhs[1][0] == "path" and len(lhs[1][1]) == 1:
                    bt = env.get(lhs[1][1][0])
                    if bt and bt[0] == "s" and lhs[2] in getattr(self, "dropped", {}).get(bt[1], ()):
                        lines.append(f"{pad}-- {lhs[1][1][0]}.{lhs[2]} {op} ..  [field not modelled]")
                        continue
                rs, rt = self.expr(rhs, env)
                if op != "=":
                    cur, _ = self.expr(lhs, env)
                    rs = f"({cur} {op[0]} {rs})"
                if lhs[0] == "path" and len(lhs[1]) == 1 and lhs[1][0] in env:
                    lines.append(f"{pad}{lname(lhs[1][0])} := {rs}")
                elif lhs[0] == "field":
                    base, bt = self.expr(lhs[1], env)
                    if lhs[1][0] != "path":
                        self.bad(line, "nested field assignment")
                    lines.append(f"{pad}{base} := {{ {base} with {lname(lhs[2])} := {rs} }}")
                else:
                    self.bad(line, "assignment target")
                continue
            if k == "return":
                if st[1] is None:
                    val = None
                else:
                    val, _ = self.expr(st[1], env)
                lines.append(pad + "return " + self.pack(val, ret_self))
                continue
            if k in ("exprstmt", "expr"):
                e = st[1]
                is_tail = (k == "expr" and last and tail)
                if e[0] == "if":
                    c, _ = self.expr(e[1], env)
                    if is_tail and ret_ty is not None:
                        # value-producing if in tail position
                        s, t = self.expr(e, env)
                        lines.append(pad + "return " + self.pack(s, ret_self))
                        continue
                    lines.append(f"{pad}if {c} then")
                    lines += self.stmts(e[2], dict_passthrough(env), ind + 1, ret_self, ret_ty, tail=False) or [pad + "  pure ()"]
                    if e[3] is not None:
                        lines.append(f"{pad}else")
                        lines += self.stmts(e[3], dict_passthrough(env), ind + 1, ret_self, ret_ty, tail=False) or [pad + "  pure ()"]
                    continue
                if e[0] == "iflet":
                    # `if let PAT = SCRUT { .. } [else { .. }]` in statement position: a two-armed match
                    sc, sct = self.expr(e[2], env)
                    ps, penv = self.pat(e[1], sct)
                    lines.append(f"{pad}match {sc} with")
                    lines.append(f"{pad}| {ps} =>")
                    benv = dict_passthrough(env)
                    benv.update(penv)
                    lines += self.stmts(e[3], benv, ind + 2, ret_self, ret_ty, tail=False) or [pad + "    pure ()"]
                    lines.append(f"{pad}| _ =>")
                    if e[4] is not None:
                        lines += self.stmts(e[4], dict_passthrough(env), ind + 2, ret_self, ret_ty, tail=False) or [pad + "    pure ()"]
                    else:
                        lines.append(pad + "    pure ()")
                    continue
                if e[0] == "match" and self.has_effect(e[1], env) and e[1][0] == "mcall":
                    v, vt = self.effect_call(e[1], env, pad, lines)
                    lines.append(f"{pad}match {v} with")
                    for (pat, body) in e[2]:
                        ps, penv = self.pat(pat, vt)
                        lines.append(f"{pad}| {ps} =>")
                        benv = dict_passthrough(env)
                        benv.update(penv)
                        bst = body[1] if body[0] == "block" else [("exprstmt", body, st[2])]
                        lines += self.stmts(bst, benv, ind + 2, ret_self, ret_ty, tail=False) or [pad + "    pure ()"]
                    continue
                if e[0] == "match":
                    sc, sct = self.expr(e[1], env)
                    lines.append(f"{pad}match {sc} with")
                    for (pat, body) in e[2]:
                        ps, penv = self.pat(pat, sct)
                        lines.append(f"{pad}| {ps} =>")
                        benv = dict_passthrough(env)
                        benv.update(penv)
                        bst = body[1] if body[0] == "block" else [("exprstmt", body, st[2])]
                        lines += self.stmts(bst, benv, ind + 2, ret_self, ret_ty, tail=False) or [pad + "    pure ()"]
                    continue
                if e[0] == "macro":
                    if e[1] in ("assert", "debug_assert"):
                        if e[2] is None:
                            self.bad(st[2], "assert! with unparsable condition")
                        c, _ = self.expr(e[2][0], env)
                        if getattr(self, "asserts_option", False):
                            lines.append(f"{pad}if !({c}) then return none   -- assert! failed: the call panics")
                            continue
                        lines.append(f"{pad}-- assert!({c})  [modelled as a precondition; see theorem hypotheses]")
                        continue
                    self.bad(st[2], f"macro {e[1]}!")
                if e[0] == "mcall" and e[1][0] == "path" and len(e[1][1]) == 1 and e[1][1][0] in getattr(self, "dropped_params", ()):
                    # a call on an object that is not modelled (e.g. `math.copy_into(src, &mut self.buf)`): allowed only if every field of a
                    # modelled struct it could write to (passed by reference) is itself not modelled
                    def target_fields(x):
                        if isinstance(x, tuple):
                            if x and x[0] == "field" and x[1][0] == "path" and len(x[1][1]) == 1:
                                yield (x[1][1][0], x[2])
                            for y in x:
                                if isinstance(y, tuple):
                                    yield from target_fields(y)
                                elif isinstance(y, list):
                                    for z in y:
                                        if isinstance(z, tuple):
                                            yield from target_fields(z)
                    for a in e[3]:
                        if a and a[0] == "ref":
                            for (base, fld) in target_fields(a):
                                bt = env.get(base)
                                if bt and bt[0] == "s" and fld not in getattr(self, "dropped", {}).get(bt[1], ()):
                                    self.bad(st[2], f"call on the unmodelled object {e[1][1][0]} takes a reference to the modelled field {base}.{fld}")
                    lines.append(f"{pad}-- {e[1][1][0]}.{e[2]}(..)  [object not modelled; touches only fields that are not modelled]")
                    continue
                if e[0] == "mcall":
                    # &mut method call on a local/self struct:  x.m(args);
                    rs, rt = self.expr(e[1], env)
                    if rt and rt[0] == "i":
                        table = getattr(self, "iface", {}).get(rt[1], {})
                        if e[2] in table and not table[e[2]][3]:
                            self.effect_call(e, env, pad, lines)
                            continue
                    if rt and rt[0] == "l" and e[2] == "push" and len(e[3]) == 1:
                        a, _ = self.expr(e[3][0], env)
                        if e[1][0] == "path":
                            lines.append(f"{pad}{rs} := {rs} ++ [{a}]")
                        elif e[1][0] == "field" and e[1][1][0] == "path":
                            base, _ = self.expr(e[1][1], env)
                            lines.append(f"{pad}{base} := {{ {base} with {lname(e[1][2])} := {rs} ++ [{a}] }}")
                        else:
                            self.bad(st[2], "receiver of push")
                        continue
                    if rt and rt[0] == "s" and (rt[1], e[2]) in self.fnsigs:
                        ln, ret, sk = self.fnsigs[(rt[1], e[2])]
                        argss = [self.expr(a, env)[0] for a in e[3]]
                        if sk == "mut" and ret is None:
                            if e[1][0] == "path":
                                lines.append(f"{pad}{rs} := " + " ".join([ln, rs] + argss))
                            elif e[1][0] == "field" and e[1][1][0] == "path":
                                base, _ = self.expr(e[1][1], env)
                                lines.append(f"{pad}{base} := {{ {base} with {lname(e[1][2])} := " + " ".join([ln, rs] + argss) + " }")
                            else:
                                self.bad(st[2], "receiver of &mut call")
                            continue
                if is_tail:
                    s, t = self.expr(e, env)
                    lines.append(pad + "return " + self.pack(s, ret_self))
                    continue
                self.bad(st[2], f"expression statement {e[0]}")
            self.bad(0, f"statement {k}")
        return lines

    def mentions_dropped(self, e, env):
        if not isinstance(e, tuple):
            return False
        if e and e[0] == "path" and len(e[1]) == 1 and (e[1][0] in getattr(self, "dropped_params", ()) or env.get(e[1][0]) == ("dropped",)):
            return True
        if e and e[0] == "mcall" and not self.mentions_dropped(e[1], env):
            try:
                _, rt = self.expr(e[1], env)
            except Untranslatable:
                rt = None
            if rt and rt[0] == "i":
                table = getattr(self, "iface", {}).get(rt[1], {})
                if e[2] in table:
                    return any(self.mentions_dropped(e[3][k], env) for k in table[e[2]][1])
        for x in e:
            if isinstance(x, tuple) and self.mentions_dropped(x, env):
                return True
            if isinstance(x, list) and any(isinstance(y, tuple) and self.mentions_dropped(y, env) for y in x):
                return True
        return False

    def tail_type(self, stmts, env):
        if not stmts:
            return None
        last = stmts[-1]
        if last[0] != "expr":
            return None
        e = last[1]
        if e[0] == "mcall":
            try:
                _, rt = self.expr(e[1], env)
            except Untranslatable:
                return None
            if rt and rt[0] == "i":
                return getattr(self, "iface", {}).get(rt[1], {}).get(e[2], (None, None, None, None))[2]
        try:
            return self.expr(e, env)[1]
        except Untranslatable:
            return None

    def branch_assign(self, stmts, env, ind, target, ret_self, ret_ty):
        """a branch of an effectful if-expression: statements, then `target := tail value`"""
        pad = "  " * ind
        benv = dict_passthrough(env)
        lines = self.stmts(stmts[:-1], benv, ind, ret_self, ret_ty, tail=False)
        last = stmts[-1]
        if last[0] != "expr":
            self.bad(0, "branch of an if-expression without tail value")
        e = last[1]
        if e[0] == "mcall" and self.has_effect(e, benv):
            v, _ = self.effect_call(e, benv, pad, lines)
            lines.append(f"{pad}{target} := {v}")
        else:
            v, _ = self.expr(e, benv)
            lines.append(f"{pad}{target} := {v}")
        return lines

    def pat(self, pat, sct):
        if sct == "res":
            # Result<(), NutsError> of the step-size search
            if pat[0] == "pctor" and pat[1][-1] == "Ok":
                return ".ok", {}
            if pat[0] == "pctor" and pat[1][-1] == "Err" and len(pat[2]) == 1:
                sub = pat[2][0]
                if sub[0] == "pctor" and sub[1][-1] == "BadInitGrad":
                    return ".badInitGrad", {}
                if sub[0] in ("pvar", "pwild"):
                    return ".other", ({sub[1]: ("dropped",)} if sub[0] == "pvar" else {})
            raise Untranslatable(f"{self.fname}: pattern {pat} on a search result")
        if pat[0] == "pwild":
            return "_", {}
        if pat[0] == "pvar":
            return lname(pat[1]), {pat[1]: sct}
        if pat[0] == "pctor":
            name = pat[1][-1]
            if name == "Some":
                inner_t = sct[1] if sct and sct[0] == "o" else None
                s, env = self.pat(pat[2][0], inner_t)
                return f"some {s}", env
            if name == "None":
                return "none", {}
        raise Untranslatable(f"{self.fname}: pattern {pat}")

    def pack(self, val, ret_self):
        if getattr(self, "asserts_option", False) and not ret_self:
            return f"some ({val})" if val is not None else "some ()"
        if ret_self:
            if val is None:
                return "self"
            return f"({val}, self)"
        return val if val is not None else "()"

    def function(self, type_name, fn, lean_name, overrides=None):
        self.self_name = type_name
        overrides = overrides or {}
        env = {}
        params = []
        if fn["self"]:
            env["self"] = ("s", type_name)
            params.append(f"(self : {type_name} α)")
        self.dropped_params = {pn for (pn, _) in fn["params"] if pn in overrides and overrides[pn] is None}
        self.asserts_option = overrides.get("__asserts__") == "option"
        self.tmp = 0
        if "__oracle__" in overrides:
            params.append(f"(orc : {overrides['__oracle__']})")
        for (pn, pty) in fn["params"]:
            if pn in overrides:
                t = overrides[pn]
                if t is None:
                    continue            # parameter dropped (must be unused)
                if t[0] == "ext":
                    # opaque object observed only through the listed getters: one parameter each
                    env[pn] = t
                    for (meth, mt) in t[1].items():
                        params.append(f"({lname(pn)}_{meth} : {self.lean_ty(mt)})")
                    continue
            else:
                t = self.conv_ty(pty)
            env[pn] = t
            params.append(f"({lname(pn)} : {self.lean_ty(t)})")
        ret = self.conv_ty(fn["ret"]) if fn["ret"] else None
        ret_self = fn["self"] in ("mut", "mut_own")
        if ret_self:
            rty = f"{type_name} α" if ret is None else f"{self.lean_ty(ret)} × {type_name} α"
        else:
            rty = self.lean_ty(ret) if ret is not None else "Unit"
            if self.asserts_option:
                rty = f"Option {rty}"
        body = []
        if ret_self:
            body.append("  let mut self := self")
        body += self.stmts(fn["body"], env, 1, ret_self, ret)
        if not body or not body[-1].lstrip().startswith("return"):
            body.append("  return " + self.pack(None, ret_self))
        head = f"def {lean_name} " + " ".join(params) + f" : {rty} := Id.run do"
        return head + "\n" + "\n".join(body) + "\n"


def dict_passthrough(env):
    # branches share the mutable environment of the enclosing do-block (Lean `let mut` semantics);
    # new `let`s inside a branch stay local to it
    return dict(env)


# ------------------------------------------------------------------ module driver

def gen_module(repo, spec, out_path, header):
    """spec: list of ('struct', file, Name) | ('fn', file, Type|None, fn, lean_name[, trait])"""
    files = {}

    def rf(rel):
        if rel not in files:
            files[rel] = RustFile(os.path.join(repo, rel))
        return files[rel]

    structs = {}
    fnsigs = {}
    out = [header, "", "namespace NutsModel.Gen", "open NutsModel", "", SCALAR_CTX, ""]
    em = Emitter(structs, fnsigs, "")
    for item in spec:
        if item[0] == "iface":
            em.iface = item[1]
            continue
        if item[0] == "iface_ctors":
            em.iface_ctors = item[1]
            continue
        if item[0] == "import":
            out[0] = out[0] + "\nimport " + item[1]
            out.insert(3, "open " + item[2]) if len(item) > 2 else None
            continue
        if item[0] == "struct":
            rel, name = item[1], item[2]
            drop = set((item[3] or {}).get("drop", [])) if len(item) > 3 else set()
            if not hasattr(em, "dropped"):
                em.dropped = {}
            em.dropped[name] = drop
            f = rf(rel)
            attrs, body, line = f.struct_decl(name)
            em.fname = rel
            em.self_name = name
            fields = parse_struct_fields(body, rel, line)
            fl = []
            ifields = (item[3] or {}).get("iface", {}) if len(item) > 3 else {}
            for (fn_, fty, fattrs) in fields:
                if fn_ in drop:
                    continue            # field not modelled (listed in the module spec)
                t = ("i", ifields[fn_]) if fn_ in ifields else em.conv_ty(fty)
                fl.append((fn_, t))
            missing = drop - {fn_ for (fn_, _, _) in fields}
            if missing:
                raise Untranslatable(f"{rel}:{line}: struct {name} has no field(s) {sorted(missing)} that the spec drops")
            structs[name] = fl
            out.append(f"/-- `{rel}:{line}` struct {name} -/")
            out.append(f"structure {name} (α : Type) where")
            for (fn_, t) in fl:
                out.append(f"  {lname(fn_)} : {em.lean_ty(t)}")
            out.append("")
        elif item[0] == "fn":
            rel, tname, fname_, lean_name = item[1], item[2], item[3], item[4]
            trait = item[5] if len(item) > 5 else None
            overrides = item[6] if len(item) > 6 else None
            f = rf(rel)
            text, line = f.impl_fn(tname, fname_, trait)
            fn = parse_fn(text, rel, line)
            em.fname = rel
            em.self_name = tname
            ret = em.conv_ty(fn["ret"]) if fn["ret"] else None
            lean = em.function(tname, fn, lean_name, overrides)
            fnsigs[(tname, fname_)] = (lean_name, ret, fn["self"])
            out.append(f"/-- `{rel}:{line}` fn {tname + '::' if tname else ''}{fname_} -/")
            out.append(lean)
    out.append("end NutsModel.Gen")
    text = "\n".join(out) + "\n"
    os.makedirs(os.path.dirname(out_path), exist_ok=True)
    old = open(out_path).read() if os.path.exists(out_path) else None
    if old != text:
        open(out_path, "w").write(text)
    return text


HEADER = ("/- GENERATED by tools/rs2lean.py from /repo's current source -- do not edit.\n"
          "   Regenerated on every check run; theorems in NutsModel/Thm are re-checked against it. -/\n"
          "import NutsModel.Scalar")

MODULES = {
    "Numeric": [
        ("fn", "src/math/util.rs", None, "logaddexp", "logaddexp"),
        ("struct", "src/stepsize/dual_avg.rs", "DualAverageOptions"),
        ("fn", "src/stepsize/dual_avg.rs", "DualAverageOptions", "default", "DualAverageOptions.default"),
        ("struct", "src/stepsize/dual_avg.rs", "DualAverage"),
        ("fn", "src/stepsize/dual_avg.rs", "DualAverage", "new", "DualAverage.new"),
        ("fn", "src/stepsize/dual_avg.rs", "DualAverage", "advance", "DualAverage.advance"),
        ("fn", "src/stepsize/dual_avg.rs", "DualAverage", "current_step_size", "DualAverage.current_step_size"),
        ("fn", "src/stepsize/dual_avg.rs", "DualAverage", "current_step_size_adapted", "DualAverage.current_step_size_adapted"),
        ("struct", "src/stepsize/adam.rs", "AdamOptions"),
        ("fn", "src/stepsize/adam.rs", "AdamOptions", "default", "AdamOptions.default"),
        ("struct", "src/stepsize/adam.rs", "Adam"),
        ("fn", "src/stepsize/adam.rs", "Adam", "new", "Adam.new"),
        ("fn", "src/stepsize/adam.rs", "Adam", "advance", "Adam.advance"),
        ("fn", "src/stepsize/adam.rs", "Adam", "current_step_size", "Adam.current_step_size"),
        ("struct", "src/stepsize/dual_avg.rs", "RunningMean"),
        ("fn", "src/stepsize/dual_avg.rs", "RunningMean", "new", "RunningMean.new"),
        ("fn", "src/stepsize/dual_avg.rs", "RunningMean", "add", "RunningMean.add"),
        ("fn", "src/stepsize/dual_avg.rs", "RunningMean", "current", "RunningMean.current"),
        ("fn", "src/stepsize/dual_avg.rs", "RunningMean", "reset", "RunningMean.reset"),
        ("fn", "src/stepsize/dual_avg.rs", "RunningMean", "count", "RunningMean.count_"),
        ("struct", "src/stepsize/dual_avg.rs", "AcceptanceRateCollector"),
        ("fn", "src/stepsize/dual_avg.rs", "AcceptanceRateCollector", "new", "AcceptanceRateCollector.new"),
        ("fn", "src/stepsize/dual_avg.rs", "AcceptanceRateCollector", "register_leapfrog",
         "AcceptanceRateCollector.register_leapfrog", "Collector",
         {"_math": None, "_start": None, "end": ("ext", {"energy": "f"}), "divergence_info": ("o", "u")}),
        ("fn", "src/stepsize/dual_avg.rs", "AcceptanceRateCollector", "register_init",
         "AcceptanceRateCollector.register_init", "Collector",
         {"_math": None, "state": ("ext", {"energy": "f"}), "_options": None}),
    ],
}


MODULES["Adapt"] = [
    # C06 / C09: the warmup schedule `GlobalStrategy::adapt`.  The two sub-strategies are interface objects (hand-written abstract Lean
    # structures in Model/AdaptIface.lean): (lean function, indices of the arguments that are kept, return type, pure?)
    ("import", "NutsModel.Model.AdaptIface", "NutsModel.Model"),
    ("iface", {
        "SSI": {"update": ("SSI.update", [], None, False), "update_stepsize": ("SSI.update_stepsize", [2], None, False),
                "update_estimator_late": ("SSI.update_estimator_late", [], None, False),
                "update_estimator_early": ("SSI.update_estimator_early", [], None, False),
                "init": ("SSI.init", [], "res", False)},
        "MMI": {"background_count": ("MMI.background_count", [], "n", True),
                "update_estimators": ("MMI.update_estimators", [], None, False),
                "switch": ("MMI.switch", [], None, False), "adapt": ("MMI.adapt", [], "b", False)},
    }),
    ("struct", "src/adapt_strategy.rs", "EuclideanAdaptOptions", {"drop": ["step_size_settings", "mass_matrix_options"]}),
    ("struct", "src/adapt_strategy.rs", "GlobalStrategy", {"iface": {"step_size": "SSI", "mass_matrix_adapt": "MMI"}}),
    ("iface_ctors", {("StepSizeStrategy", "new"): ("SSI.new", "SSI"), ("A", "new"): ("MMI.new", "MMI")}),
    ("fn", "src/adapt_strategy.rs", "GlobalStrategy", "new", "GlobalStrategy.new", "AdaptStrategy",
     {"__asserts__": "option", "math": None, "chain": None, "options": ("s", "EuclideanAdaptOptions")}),
    ("fn", "src/adapt_strategy.rs", "GlobalStrategy", "adapt", "GlobalStrategy.adapt", "AdaptStrategy",
     {"__oracle__": "AdaptOracle", "math": None, "options": None, "hamiltonian": None, "collector": None, "state": None, "rng": None}),
]

MODULES["Collector"] = [
    # C09: which draws the mass-matrix estimators use (`DrawGradCollector::register_draw`; the two vector buffers are not modelled)
    ("struct", "src/transform/adapt/diagonal.rs", "DrawGradCollector", {"drop": ["draw", "grad"]}),
    ("fn", "src/transform/adapt/diagonal.rs", "DrawGradCollector", "register_draw", "DrawGradCollector.register_draw", "Collector",
     {"math": None, "state": ("ext", {"index_in_trajectory": "z"}), "info": ("ext", {"divergence_info": ("o", "u")})}),
]

MODULES["Progress"] = [
    # C11: the per-chain progress counters (`runtime: Duration` is not modelled)
    ("struct", "src/sampler.rs", "ChainProgress", {"drop": ["runtime"]}),
    ("fn", "src/sampler.rs", "ChainProgress", "update", "ChainProgress.update", None,
     {"stats": ("ext", {"diverging": "b", "tuning": "b", "num_steps": "n", "step_size": "f"}), "draw_duration": None}),
]


# ------------------------------------------------------------------ Storable schemas (C16)

SCHEMA_STRUCTS = [
    # (file, rust struct name, lean name)
    ("src/chain.rs", "NutsStats", "NutsStats"),
    ("src/mclmc.rs", "MclmcStats", "MclmcStats"),
    ("src/dynamics/hamiltonian.rs", "DivergenceStats", "DivergenceStats"),
    ("src/dynamics/transformed_hamiltonian.rs", "PointStats", "PointStats"),
    ("src/dynamics/transformed_hamiltonian.rs", "HamiltonianStats", "HamiltonianStats"),
    ("src/transform/diagonal.rs", "DiagMassMatrixStats", "DiagMassMatrixStats"),
    ("src/transform/low_rank.rs", "MatrixStats", "LowRankMatrixStats"),
    ("src/transform/external.rs", "ExternalTransformationStats", "ExternalTransformationStats"),
    ("src/transform/adapt/diagonal.rs", "Stats", "DiagAdaptStats"),
    ("src/external_adapt_strategy.rs", "Stats", "ExternalAdaptStats"),
    ("src/adapt_strategy.rs", "GlobalStrategyStats", "GlobalStrategyStats"),
    ("src/stepsize/adapt.rs", "Stats", "StepSizeStats"),
]

BASIC_TYPES = {"u64": "u64", "i64": "i64", "f64": "f64", "f32": "f32", "bool": "bool", "String": "string"}


def ty_to_str(ty):
    if ty[0] == "path":
        if ty[2]:
            return ty[1] + "<" + ",".join(ty_to_str(a) for a in ty[2]) + ">"
        return ty[1]
    return str(ty)


def struct_generics(rf, name):
    m = re.search(r"\bstruct\s+%s\b\s*(<[^{]*?>)?\s*(where[^{]*)?\{" % re.escape(name), rf.src)
    if not m or not m.group(1):
        return []
    inner = m.group(1)[1:-1]
    params = []
    depth = 0
    cur = ""
    for ch in inner:
        if ch in "<(":
            depth += 1
        if ch in ">)":
            depth -= 1
        if ch == "," and depth == 0:
            params.append(cur)
            cur = ""
        else:
            cur += ch
    if cur.strip():
        params.append(cur)
    out = []
    for prm in params:
        nm = prm.split(":")[0].strip()
        storable = bool(re.search(r":\s*[^,]*\bStorable\b", prm))
        out.append((nm, storable))
    return out


def gen_schema(repo, out_path):
    files = {}
    lines = ["/- GENERATED by tools/rs2lean.py from the #[derive(Storable)] structs of /repo -- do not edit. -/",
             "import NutsModel.Model.StatsSchema", "", "namespace NutsModel.Gen.Schema", "open NutsModel.Model", ""]
    names = []
    for (rel, sname, lname_) in SCHEMA_STRUCTS:
        if rel not in files:
            files[rel] = RustFile(os.path.join(repo, rel))
        rf = files[rel]
        attrs, body, line = rf.struct_decl(sname)
        if not any("Storable" in a for a in attrs):
            raise Untranslatable(f"{rel}:{line}: struct {sname} does not derive Storable")
        generics = struct_generics(rf, sname)
        fields = parse_struct_fields(body, rel, line)
        fl = []
        for (fname, fty, fattrs) in fields:
            st = [a for a in fattrs if a.startswith("storable")]
            mode = "item"
            dims = []
            event = None
            if st:
                a = st[0]
                if re.search(r"\bignore\b", a):
                    continue
                if re.search(r"\bflatten\b", a):
                    mode = "flatten"
                dm = re.search(r"dims \( ([^)]*) \)", a)
                if dm:
                    dims = re.findall(r'"([^"]*)"', dm.group(1))
                em = re.search(r'event = "([^"]*)"', a)
                if em:
                    event = em.group(1)
            t = ty_to_str(fty)
            is_opt = False
            core = t
            m = re.fullmatch(r"Option<(.*)>", t)
            if m:
                is_opt = True
                core = m.group(1)
            gen_names = [g[0] for g in generics]
            if mode == "flatten":
                if core in gen_names:
                    fl.append(f'.param "{core}" {str(is_opt).lower()}')
                else:
                    fl.append(f'.inner "{core.split("<")[0]}" {str(is_opt).lower()}')
                continue
            if core in gen_names and dict(generics)[core]:
                if is_opt:
                    raise Untranslatable(f"{rel}:{line}: Option<generic> Storable field {fname} (ItemType::Generic) outside subset")
                fl.append(f'.param "{core}" false')
                continue
            is_vec = False
            m = re.fullmatch(r"Vec<(.*)>", core)
            if m:
                is_vec = True
                core2 = m.group(1)
            else:
                core2 = core
            if core2 in BASIC_TYPES and not (is_vec and core2 == "String"):
                ds = "[" + ", ".join(f'"{d}"' for d in dims) + "]"
                ev = f'(some "{event}")' if event else "none"
                fl.append(f'.basic {{ name := "{fname}", ty := .{BASIC_TYPES[core2]}, isVec := {str(is_vec).lower()}, '
                          f'isOption := {str(is_opt).lower()}, dims := {ds}, event := {ev} }}')
            else:
                if is_opt or is_vec:
                    raise Untranslatable(f"{rel}:{line}: field {fname}: {t} outside the derive macro's type table")
                fl.append(f'.inner "{core.split("<")[0]}" false')
        plist = "[" + ", ".join(f'"{g[0]}"' for g in generics if g[1]) + "]"
        lines.append(f"/-- `{rel}:{line}` struct {sname} -/")
        lines.append(f"def {lname_} : StructSchema :=")
        lines.append(f'  {{ name := "{lname_}", rustName := "{sname}", params := {plist}, fields := [')
        lines.append(",\n".join("      " + f for f in fl))
        lines.append("    ] }")
        lines.append("")
        names.append(lname_)
    lines.append("def all : List StructSchema := [" + ", ".join(names) + "]")
    lines.append("")
    lines.append("end NutsModel.Gen.Schema")
    text = "\n".join(lines) + "\n"
    os.makedirs(os.path.dirname(out_path), exist_ok=True)
    old = open(out_path).read() if os.path.exists(out_path) else None
    if old != text:
        open(out_path, "w").write(text)
    return text


# ------------------------------------------------------------------ settings type descriptors (C19)

SETTINGS_ITEMS = [
    # (file, item name)   -- structs and enums deriving Serialize + Deserialize
    ("src/stepsize/dual_avg.rs", "DualAverageOptions"),
    ("src/stepsize/adam.rs", "AdamOptions"),
    ("src/stepsize/adapt.rs", "StepSizeAdaptMethod"),
    ("src/stepsize/adapt.rs", "StepSizeAdaptOptions"),
    ("src/stepsize/adapt.rs", "StepSizeSettings"),
    ("src/transform/adapt/diagonal.rs", "DiagAdaptExpSettings"),
    ("src/transform/low_rank.rs", "LowRankSettings"),
    ("src/external_adapt_strategy.rs", "FlowSettings"),
    ("src/adapt_strategy.rs", "EuclideanAdaptOptions"),
    ("src/dynamics/transformed_hamiltonian.rs", "KineticEnergyKind"),
    ("src/mclmc.rs", "MclmcTrajectoryKind"),
    ("src/sampler.rs", "NutsSettings"),
    ("src/sampler.rs", "MclmcSettings"),
]
SETTINGS_PRESETS = ["DiagNutsSettings", "LowRankNutsSettings", "FlowNutsSettings",
                    "DiagMclmcSettings", "LowRankMclmcSettings", "FlowMclmcSettings"]


def item_decl(rf, name):
    """('struct'|'enum', attrs text, generics text, body, line)"""
    m = re.search(r"\b(struct|enum)\s+%s\b\s*(<[^{]*?>)?\s*(where[^{]*)?\{" % re.escape(name), rf.src)
    if not m:
        raise Untranslatable(f"{rf.path}: item {name} not found")
    end = find_matching(rf.src, m.end() - 1)
    pre = rf.src[:m.start()]
    attrs = []
    while True:
        mm = re.search(r"(#\[[^\]]*\]|pub(\([a-z]+\))?)\s*$", pre)
        if not mm:
            break
        attrs.insert(0, mm.group(1))
        pre = pre[:mm.start()]
    return m.group(1), " ".join(attrs), (m.group(2) or ""), rf.src[m.end():end], rf.line_of(m.start())


def settings_ty(ty, generics, known, where):
    if ty[0] != "path":
        raise Untranslatable(f"{where}: type {ty} outside subset")
    n, args = ty[1], ty[2]
    if n in ("f64",):
        return ".f64"
    if n in ("u64", "usize"):
        return ".u64"
    if n == "bool":
        return ".bool"
    if n == "Option":
        return "(.opt " + settings_ty(args[0], generics, known, where) + ")"
    if n in generics:
        return n
    if n in known:
        if args:
            return "(" + n + " " + " ".join(settings_ty(a, generics, known, where) for a in args) + ")"
        return n
    raise Untranslatable(f"{where}: unknown settings type {n}")


def gen_settings(repo, out_path):
    files = {}
    lines = ["/- GENERATED by tools/rs2lean.py from the Serialize/Deserialize settings types of /repo -- do not edit. -/",
             "import NutsModel.Model.Serde", "", "namespace NutsModel.Gen.Settings", "open NutsModel.Model", ""]
    known = {}
    for (rel, name) in SETTINGS_ITEMS:
        if rel not in files:
            files[rel] = RustFile(os.path.join(repo, rel))
        rf = files[rel]
        kind, attrs, gen, body, line = item_decl(rf, name)
        where = f"{rel}:{line}"
        if "Serialize" not in attrs or "Deserialize" not in attrs:
            raise Untranslatable(f"{where}: {name} does not derive Serialize and Deserialize")
        if "serde(" in attrs.replace(" ", "") or re.search(r"#\s*\[\s*serde", body):
            raise Untranslatable(f"{where}: {name} carries #[serde(...)] attributes (skip/rename/default/flatten are outside the model)")
        generics = [g.split(":")[0].strip() for g in gen.strip()[1:-1].split(",")] if gen.strip() else []
        generics = [g for g in generics if g]
        if kind == "struct":
            fields = parse_struct_fields(body, rel, line)
            expr = ".nil"
            for (fname, fty, fattrs) in reversed(fields):
                expr = f'.cons "{fname}" {settings_ty(fty, generics, known, where)} ({expr})'
            rhs = f".struct ({expr})"
        else:
            toks = tokenize(body, rel)
            p = Parser(toks, rel)
            variants = []
            while p.cur.kind != "eof":
                while p.at("#"):
                    p.i += 1
                    p.expect("[")
                    depth = 1
                    while depth:
                        if p.at("["):
                            depth += 1
                        if p.at("]"):
                            depth -= 1
                        p.i += 1
                vname = p.ident()
                payload = None
                if p.at("("):
                    p.i += 1
                    payload = p.ty()
                    if p.at(","):
                        raise Untranslatable(f"{where}: tuple variant {vname} with several fields")
                    p.expect(")")
                elif p.at("{"):
                    raise Untranslatable(f"{where}: struct variant {vname} outside subset")
                variants.append((vname, payload))
                if not p.eat(","):
                    break
            expr = ".nil"
            for (vname, payload) in reversed(variants):
                if payload is None:
                    expr = f'.unit "{vname}" ({expr})'
                else:
                    expr = f'.newtype "{vname}" {settings_ty(payload, generics, known, where)} ({expr})'
            rhs = f".enum ({expr})"
        params = " ".join(f"({g} : STy)" for g in generics)
        lines.append(f"/-- `{rel}:{line}` {kind} {name} -/")
        lines.append(f"def {name} {params} : STy :=\n  {rhs}")
        lines.append("")
        known[name] = len(generics)
    # the preset type aliases of src/sampler.rs
    rf = files["src/sampler.rs"]
    for alias in SETTINGS_PRESETS:
        m = re.search(r"\bpub\s+type\s+%s\s*=\s*([^;]+);" % re.escape(alias), rf.src)
        if not m:
            raise Untranslatable(f"src/sampler.rs: type alias {alias} not found")
        toks = tokenize(m.group(1), "src/sampler.rs")
        ty = Parser(toks, "src/sampler.rs").ty()
        lines.append(f"/-- `src/sampler.rs:{rf.line_of(m.start())}` type {alias} -/")
        lines.append(f"def {alias} : STy := {settings_ty(ty, [], known, 'src/sampler.rs')}")
        lines.append("")
    lines.append("def presets : List (String × STy) := [" + ", ".join(f'("{a}", {a})' for a in SETTINGS_PRESETS) + "]")
    lines.append("")
    lines.append("end NutsModel.Gen.Settings")
    text = "\n".join(lines) + "\n"
    os.makedirs(os.path.dirname(out_path), exist_ok=True)
    old = open(out_path).read() if os.path.exists(out_path) else None
    if old != text:
        open(out_path, "w").write(text)
    return text


KERNELS = [
    # (fn in `impl Math for CpuMath`, outputs in closure-parameter naming)
    ("array_update_variance", ["mean", "var"]),
    ("array_update_var_inv_std_draw", ["std_out", "inv_std_out"]),
    ("array_update_var_inv_std_draw_grad", ["std_out", "inv_std_out"]),
    ("array_update_var_inv_std_grad", ["std_out", "inv_std_out"]),
]

def closure_kernel(rf, fn_name):
    text, line = rf.impl_fn("CpuMath", fn_name, "Math")
    # signature: captured scalar parameters
    sig = text[text.index("(") + 1:]
    depth = 1; i = 0
    while depth:
        c = sig[i]
        depth += c == "("; depth -= c == ")"; i += 1
    sig = sig[:i - 1]
    caps = []
    for part in re.split(r",(?![^()<>]*[)>])", sig):
        part = part.strip()
        if not part or "self" in part.split(":")[0]:
            continue
        name, ty = [x.strip() for x in part.split(":", 1)]
        ty = ty.replace(" ", "")
        if ty == "f64":
            caps.append((name, "f64", [name]))
        elif ty == "Option<f64>":
            caps.append((name, "Option<f64>", [name]))
        elif ty == "(f64,f64)":
            caps.append((name, "tuple", [name + "_0", name + "_1"]))
        # vectors are the closure's element parameters
    m = re.search(r"\.for_each\(\s*\|\(([^)]*)\)\|\s*\{", text)
    if not m or len(re.findall(r"\.for_each\(", text)) != 1:
        raise Untranslatable(f"{rf.path}: {fn_name}: expected exactly one element-wise `.for_each(|(..)| {{..}})` closure")
    pats = [p.strip() for p in m.group(1).split(",") if p.strip()]
    names = [p.lstrip("&").strip() for p in pats]
    b0 = m.end() - 1
    b1 = find_matching(text, b0)
    body = text[b0 + 1:b1]
    # everything else in the function must be plumbing (slices, iterators, dispatch): no arithmetic outside the closure
    rest = text[:m.start()] + text[b1 + 1:]
    if re.search(r"[-+*/]\s*[A-Za-z0-9_(]|\.(sqrt|recip|clamp|abs|ln|exp)\(", rest.split("{", 1)[1]):
        raise Untranslatable(f"{rf.path}: {fn_name}: arithmetic outside the element-wise closure")
    mutated = [n for n in names if re.search(r"\*%s\s*(=|\+=|-=|\*=)" % re.escape(n), body)]
    body = re.sub(r"\*([A-Za-z_]\w*)", r"\1", body)
    for (cn, ct, parts) in caps:
        if ct == "tuple":
            body = body.replace(cn + ".0", parts[0]).replace(cn + ".1", parts[1])
    return names, mutated, caps, body, line

def gen_kernels(repo, out_path):
    rf = RustFile(os.path.join(repo, "src/math/cpu_math.rs"))
    out = [HEADER, "", "namespace NutsModel.Gen.Kernels", "open NutsModel", "", SCALAR_CTX, ""]
    em = Emitter({}, {}, "src/math/cpu_math.rs")
    for (fn_name, outputs) in KERNELS:
        names, mutated, caps, body, line = closure_kernel(rf, fn_name)
        if sorted(mutated) != sorted(outputs):
            raise Untranslatable(f"cpu_math.rs: {fn_name}: closure writes {mutated}, expected {outputs}")
        params = [f"{n}: f64" for n in names]
        for (cn, ct, parts) in caps:
            if ct == "tuple":
                params += [f"{p}: f64" for p in parts]
            else:
                params.append(f"{cn}: {ct}")
        for o in outputs:
            muts = "".join(f"let mut {n} = {n};\n" for n in mutated)
            src = f"fn {fn_name}_{o}({', '.join(params)}) -> f64 {{\n{muts}{body}\nreturn {o};\n}}"
            fn = parse_fn(src, "src/math/cpu_math.rs", line)
            lean = em.function(None, fn, f"{fn_name}_{o}")
            out.append(f"/-- `src/math/cpu_math.rs:{line}` element-wise closure of `{fn_name}`, output `{o}` -/")
            out.append(lean)
    out.append("end NutsModel.Gen.Kernels")
    open(out_path, "w").write("\n".join(out) + "\n")



def main(argv):
    import argparse
    ap = argparse.ArgumentParser()
    ap.add_argument("--repo", default="/repo")
    ap.add_argument("--out", default=os.path.join(os.path.dirname(os.path.abspath(__file__)), "..", "lean", "NutsModel", "Gen"))
    ap.add_argument("modules", nargs="*")
    a = ap.parse_args(argv)
    mods = a.modules or (list(MODULES) + ["Schema", "Settings", "Kernels"])
    rc = 0
    for m in mods:
        try:
            if m == "Settings":
                gen_settings(a.repo, os.path.join(a.out, "Settings.lean"))
                print("rs2lean: generated Gen/Settings.lean")
                continue
            if m == "Kernels":
                gen_kernels(a.repo, os.path.join(a.out, "Kernels.lean"))
                print("rs2lean: generated Gen/Kernels.lean")
                continue
            if m == "Schema":
                gen_schema(a.repo, os.path.join(a.out, "Schema.lean"))
                print("rs2lean: generated Gen/Schema.lean")
                continue
            gen_module(a.repo, MODULES[m], os.path.join(a.out, m + ".lean"), HEADER)
            print(f"rs2lean: generated Gen/{m}.lean")
        except Untranslatable as e:
            print(f"rs2lean: untranslatable: {e}")
            rc = 2
    return rc


if __name__ == "__main__":
    sys.exit(main(sys.argv[1:]))
