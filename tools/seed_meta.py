#!/usr/bin/env python3
"""usage: seed_meta.py <NAME> <round-label> [note]  -- writes seeded/<NAME>/meta.json from agent_meta.json and the check_*_quick.log files"""
import json, sys, glob, os, re
name, rnd = sys.argv[1], sys.argv[2]
note = sys.argv[3] if len(sys.argv) > 3 else None
d = f"/verif/seeded/{name}"
a = json.load(open(f"{d}/agent_meta.json"))
res, caught = {}, []
for f in sorted(glob.glob(f"{d}/check_*_*.log")):
    m = re.match(r"check_(C\d+)_(\w+)\.log", os.path.basename(f)); cid, tier = m.group(1), m.group(2)
    t = open(f).read()
    viol = [l for l in t.splitlines() if l.startswith("VIOLATION")]
    rc = 1 if viol else 0
    res[cid if tier == "quick" else f"{cid}:{tier}"] = {"exit": rc, "violation_lines": len(viol), "no_failing_input_found": any(l.rstrip().endswith("no-failing-input-found") for l in viol),
        "summary": [l for l in t.splitlines() if l.startswith("check ")][:1], "first_messages": [l.strip()[:300] for l in t.splitlines() if l.startswith("  ")][:2]}
    if rc == 1 and tier == "quick": caught.append(cid)
meta = {"property": a["property"], "summary": a["summary"], "needs_to_manifest": a["needs_to_manifest"], "files_changed": a["files_changed"],
    "origin": f"fresh sub-agent ({rnd}; told only which already-used ideas to avoid) given the property text and a scratch worktree of /repo; confirmed by hand in that worktree",
    "what_i_ran": ["in the scratch worktree with the patch applied: cargo test --workspace --no-fail-fast --offline -> all pre-existing tests pass, only tests/seeded_demo.rs fails (mutated_tests.log)",
        "in the scratch worktree with the patch reverted: cargo test --offline --test seeded_demo -> passes (clean_demo.log)",
        "git -C /repo apply patch.diff; ./check <ID> --tier quick; git -C /repo checkout -- ."],
    "demo": "seeded_demo.rs (copy to tests/seeded_demo.rs of a worktree)", "check_results": res, "caught_by": caught}
if note: meta["note"] = note
json.dump(meta, open(f"{d}/meta.json", "w"), indent=1)
print(name, "caught_by", caught)
