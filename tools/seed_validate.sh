#!/bin/bash
# usage: seed_validate.sh <NAME> <worktree> [checks...]
# 1. in the scratch worktree: mutated tree compiles, baseline suite passes (only the demo fails), demo passes on the unmutated tree
# 2. copy artefacts to /verif/seeded/<NAME>/
# 3. apply to /repo, run the listed checks, undo
set -u
NAME=$1; WT=$2; shift 2
export CARGO_NET_OFFLINE=true
OUT=/verif/seeded/$NAME; mkdir -p $OUT
cd $WT || exit 2
echo "== mutated tree: workspace tests (demo expected to fail)"
cargo test --workspace --no-fail-fast --offline > $OUT/mutated_tests.log 2>&1
if [ -n "${FEATURES:-}" ]; then cargo test --offline --features $FEATURES --test seeded_demo > $OUT/mutated_demo.log 2>&1; grep -E "^test result|FAILED" $OUT/mutated_demo.log | head -5; git diff Cargo.toml > $OUT/demo_cargo_toml.diff; fi
grep -E "^test result|FAILED|failed" $OUT/mutated_tests.log | sort | uniq -c | head -20
echo "== unmutated tree: demo expected to pass"
git apply -R seeded_patch.diff || { echo "cannot reverse patch"; exit 2; }
cargo test --offline ${FEATURES:+--features $FEATURES} --test seeded_demo > $OUT/clean_demo.log 2>&1; echo "clean demo rc=$?"
grep -E "^test result" $OUT/clean_demo.log
git apply seeded_patch.diff
cp seeded_patch.diff $OUT/patch.diff; cp tests/seeded_demo.rs $OUT/seeded_demo.rs; cp seeded_meta.json $OUT/agent_meta.json
cd /repo && git status --short | grep -v '^??' && { echo "/repo dirty"; exit 2; }
git -C /repo apply $OUT/patch.diff || { echo "patch does not apply to /repo HEAD"; exit 3; }
# evidence files describe the unchanged tree: keep them out of the mutated runs
EVBAK=$(mktemp -d /tmp/evidence-bak.XXXX); cp -a /verif/evidence/. $EVBAK/
for c in "$@"; do
  tier=quick; id=$c
  case $c in *:thorough) tier=thorough; id=${c%%:*};; esac
  echo "== ./check $id --tier $tier on mutated /repo"
  (cd /verif && ./check $id --tier $tier > $OUT/check_${id}_$tier.log 2>&1; echo "rc=$?"; grep -E "VIOLATION|KNOWN" $OUT/check_${id}_$tier.log | head -5)
done
git -C /repo checkout -- .
cp -a $EVBAK/. /verif/evidence/; rm -rf $EVBAK
git -C /repo status --short | head
