"""Per-property configuration of ./check: which generated modules, theorem modules and theorem
names carry the property, what the harness subcommand is, and the texts that go into the evidence.

The theorem lists are part of the *check*, not of the Lean sources: a theorem that disappears or
is renamed is a failed obligation, so a property theorem cannot be quietly dropped."""

ALLOWED_AXIOMS = {"propext", "Classical.choice", "Quot.sound"}

COMMON_TRUSTED = [
    "Lean 4.33.0 kernel (thorough tier: re-checked by leanchecker); Mathlib v4.33.0 as a library of kernel-checked lemmas",
    "axioms allowed in property theorems: propext, Classical.choice, Quot.sound (audited by #print axioms on every run); no sorry/admit/native_decide/bv_decide/own axioms (token audit on every run)",
    "theorems are about the Real-number instance of the scalar-polymorphic definitions; the code runs f64 -- the Float instance of the same definitions is compared with the real code, rounding error is not formalised",
    "tools/rs2lean.py (Rust subset -> Lean translator) for the generated definitions; the Rust harness /verif/harness (generators, canonicalisation, tolerances) and the cfg(nuts_rs_verif) hook module being a faithful window",
]

PROPS = {
    "C01": {
        "gen": ["Numeric"],
        "thm_module": "NutsModel.Thm.C01",
        "namespace": "NutsModel.C01",
        "theorems": [
            "logaddexp_spec", "logaddexp_comm", "exp_logaddexp", "coin_half", "prob_total",
            "mergeInto_eq", "takeOther_main", "takeOther_sub", "takeOther_bernOk",
            "sub_multinomial", "min_div_symm", "main_balance",
            "back_wordOf", "wordOf_back", "kernel_balance",
        ],
        "harness": "C01",
        "level": "proof",
        "rule": ("(a) logaddexp on special values, equal/near-equal/far-apart arguments; (b) random scripted orbits (energy "
                 "profile, U-turn table, optional faults) x tree options x random RNG tapes run through the REAL nuts::draw "
                 "against a mock Hamiltonian: every Hamiltonian call, every merge (depth, main flag, draw index, log_size "
                 "bits), every Bernoulli threshold (measured on the implementation by bisection of the RNG word) and the "
                 "result are replayed by Model/Tree.lean; (c) exact transition kernel of the implementation on small "
                 "orbits by exhaustive enumeration of direction words and Bernoulli outcomes, tested for detailed balance "
                 "and mirrored-trajectory symmetry. distinct_nontrivial = distinct trajectories with >=1 U-turn verdict "
                 "true and >1 RNG call, plus distinct (orbit,start,target) kernel pairs with K(s,i)>0."),
        "trusted": [
            "C01: proved: logaddexp (translated) = log(e^a+e^b); the model's merge_into accepts with min(1,W_o/W_s) (main) resp. W_o/(W_s+W_o) (sub-tree) and never passes p outside [0,1] to random_bool; on the perfect-binary-tree abstraction: sub-trees multinomial, detailed balance inside a trajectory, direction word <-> start offset bijection, reversibility of any start-independent mixture of windows",
            "C01: NOT proved in Lean: that Model/Tree.lean's buildOther/extend/draw compute exactly subPmf/mainPmf of the window's tree and that window validity is start-independent (the refinement lemma); this step is covered by the bit-exact correspondence of Model/Tree.lean with the real nuts::draw and by the implementation-level exact-kernel detailed-balance check",
            "C01: the measure-theoretic lift from per-orbit detailed balance to invariance of pi on R^d x R^d (volume preservation + Fubini) is argued in DESIGN.md, not formalised; divergent trajectories excluded as in the property",
            "C01: uniform RNG words => Bernoulli(p) true with probability floor(p 2^64)/2^64, coin 1/2 (rand 0.10 decoding rules are modelled in Model/Rand.lean and validated by the threshold measurements)",
        ],
    },
    "C07": {
        "gen": ["Numeric"],
        "thm_module": "NutsModel.Thm.C07",
        "namespace": "NutsModel.C07",
        "theorems": [
            "advance_eq", "dom_advance", "da_monotone", "da_bounded", "step_le_max", "adapted_le_max",
            "wavg_closed", "avgWeight_nonneg", "avgWeight_sum_one", "da_average_formula",
            "adam_advance_eq", "adam_direction", "register_leapfrog_eq", "accStat_range",
            "accStatSym_range", "accStatSym_symm", "accept_stat_range",
            "search_exit_classification", "search_brackets_forward", "search_brackets_backward",
            "search_step_is_initial_unless_found",
        ],
        "harness": "C07",
        "level": "proof",
        "rule": ("cases = (options, initial step, target, acceptance history) drawn from VERIF_SEED: default and random "
                 "options, histories all-0 / all-1 / alternating / uniform / near-target / block / edge values, lengths 1, 2, "
                 "random and the tier maximum; plus step-size-search scripts driven through the real Strategy::init with a "
                 "scripted mock Hamiltonian. Each case is replayed bit-for-bit by the Lean model (Float instance of the "
                 "translated code). distinct_nontrivial counts distinct cases on which a direct oracle had something to "
                 "decide (paired history with >=1 raised entry; Adam run with >=1 update whose smoothed statistic is "
                 "outside the guard band; search that took >=1 doubling/halving)."),
        "trusted": [
            "C07: closed-loop claim ('post-warmup mean acceptance close to target') is measured by the C06/C04 runs, not proved",
            "C07: step-size search is a hand-written model (Model/StepSizeSearch.lean) tied by correspondence through Strategy::init with a mock Hamiltonian; DualAverage/Adam/acceptance statistics are translated from source",
        ],
    },
}
