"""Per-property configuration of ./check: which generated modules, theorem modules and theorem
names carry the property, what the harness subcommand is, and the texts that go into the evidence.

The theorem lists are part of the *check*, not of the Lean sources: a theorem that disappears or
is renamed is a failed obligation, so a property theorem cannot be quietly dropped."""

ALLOWED_AXIOMS = {"propext", "Classical.choice", "Quot.sound"}

COMMON_TRUSTED = [
    "Lean 4.33.0 kernel (thorough tier: re-checked by leanchecker); Mathlib v4.33.0 as a library of kernel-checked lemmas",
    "axioms allowed in property theorems: propext, Classical.choice, Quot.sound (audited by #print axioms on every run); no sorry/admit/native_decide/bv_decide/own axioms (token audit on every run)",
    "theorems are about the Real-number instance of the scalar-polymorphic definitions; the code runs f64 -- the Float instance of the same definitions is compared with the real code, rounding error is not formalised",
    "tools/rs2lean.py (Rust subset -> Lean translator) for the generated definitions; the Rust harness /verif/harness (generators, canonicalisation, tolerances) and the cfg(nuts_rs_verif) hook module being a faithful window",
]

PROPS = {
    "C01": {
        "gen": ["Numeric"],
        "thm_module": "NutsModel.Thm.C01Mirror",
        "namespace": "NutsModel.C01",
        "theorems": [
            "logaddexp_spec", "logaddexp_comm", "exp_logaddexp", "coin_half", "prob_total",
            "mergeInto_eq", "takeOther_main", "takeOther_sub", "takeOther_bernOk",
            "sub_multinomial", "min_div_symm", "main_balance",
            "back_wordOf", "wordOf_back", "kernel_balance",
            "merge_cont", "buildOther_spec", "extend_spec", "loop_spec", "S_balance", "K_eq_S",
            "nuts_detailed_balance",
            "mirror_symmetry", "window_prob_value", "Kwin_eq", "windows_partition", "K_eq_sum_windows",
        ],
        "harness": "C01",
        "level": "proof",
        "rule": ("(a) logaddexp on special values, equal/near-equal/far-apart arguments; (b) random scripted orbits (energy "
                 "profile, U-turn table, optional faults) x tree options x random RNG tapes run through the REAL nuts::draw "
                 "against a mock Hamiltonian: every Hamiltonian call, every merge (depth, main flag, draw index, log_size "
                 "bits), every Bernoulli threshold (measured on the implementation by bisection of the RNG word) and the "
                 "result are replayed by Model/Tree.lean; (c) exact transition kernel of the implementation on small "
                 "orbits by exhaustive enumeration of direction words and Bernoulli outcomes, tested for detailed balance "
                 "and mirrored-trajectory symmetry. distinct_nontrivial = distinct trajectories with >=1 U-turn verdict "
                 "true and >1 RNG call, plus distinct (orbit,start,target) kernel pairs with K(s,i)>0."),
        "trusted": [
            "C01: proved (nuts_detailed_balance): for EVERY divergence-free orbit (energies E : Z -> R, symmetric U-turn verdicts), every maxdepth and all states s, i: exp(-E s) K(s,i) = exp(-E i) K(i,s), where K is the transition probability of the executable model Model/Tree.lean (default tree options) under the probability semantics coin = 1/2, random_bool(p) = p. Intermediate: translated logaddexp = log(e^a+e^b); merge_into accepts with min(1,W_o/W_s) (main) resp. W_o/(W_s+W_o) (sub-tree), p in [0,1]; sub-trees multinomial; refinement K = closed-form mixture over final windows (K_eq_S); mirrored direction words",
            "C01: the model is hand-written and tied to src/nuts.rs by bit-exact trace validation (every Hamiltonian call, merge, log_size, measured Bernoulli threshold, result) and by the implementation-level exact-kernel detailed-balance check; orbit re-indexing (the leapfrog orbit through z' is the orbit through z, shifted) is C02's reversibility",
            "C01: the mirror clause is proved as probabilities of (window, depth) events read off the model's log (Thm/C01Mirror), not as an event on the coin sequence (the log does not record coin values; the word-level bijection is back_wordOf / wordOf_back); the measure-theoretic lift from per-orbit detailed balance to invariance of pi on R^d x R^d is not formalised (its ingredients are: phase_space_detailed_balance in Thm/C04, volume preservation in Thm/C02Volume); divergent trajectories excluded as in the property",
            "C01: uniform RNG words => Bernoulli(p) true with probability floor(p 2^64)/2^64, coin 1/2 (rand 0.10 decoding rules are modelled in Model/Rand.lean and validated by the threshold measurements)",
        ],
    },
    "C02": {
        "gen": [],
        "thm_module": "NutsModel.Thm.C02VolumeExn",
        "namespace": "NutsModel.C02",
        "theorems": ["vsum_eq_sum", "dot_eq_sum", "diag_bijection", "leapfrog_reversible", "leapfrog_gy_consistent",
                     "leapfrog_reversible_iterate", "leapfrog_is_textbook_diag", "lowrank_apply_inverse", "lowrank_bijection",
                     "gradient_pullback_diag", "gradient_pullback_lowrank", "exactnormal_conserves", "modified_energy_conserved",
                     "leapfrog_shear_decomposition", "shearV_bijective", "shearQ_bijective", "logdet_diag",
                     "shearV_measurePreserving", "shearQ_measurePreserving", "leapfrog_volume_preserving", "leapfrogPair_eq_shears",
                     "leapfrogPair_spec", "leapfrog_step_volume_preserving", "leapfrog_step_volume_preimage", "leapfrogPair_bijective",
                     "leapfrog_iterate_volume_preserving",
                     "rotPair_eq_posStep", "rotPair_add", "rotPair_bijective", "rotPair_eq_shears", "rotPair_measurePreserving",
                     "exn_volume_preserving", "exnPair_eq", "exnPair_spec", "exn_step_volume_preserving", "exnPair_bijective",
                     "exn_iterate_volume_preserving"],
        "harness": "C02",
        "level": "proof",
        "rule": ("one real TransformedHamiltonian::leapfrog step (and the step back) per case: Diag and LowRank transformations with "
                 "explicit parameters (hook constructors), ranks 0..n with random orthonormal eigenvectors, eigenvalues/scales log-uniform "
                 "over up to 16 orders of magnitude, Euclidean and ExactNormal, densities iso / badly scaled / dense correlated Gaussian / "
                 "Student-t / quartic, dimensions 1..17 (quick) / 1..64 (thorough), step sizes of both signs log-uniform in [1e-4, 2]. "
                 "Model/Leapfrog.lean (Float instance) must reproduce transformed position, gradient, velocity, logdet, kinetic energy and "
                 "energy before and after the step. Direct oracle independent of the model: forward-then-backward returns the start; a "
                 "dense-matrix textbook leapfrog with M^-1 = F F^T (F assembled explicitly, F^T p = v solved by LU) gives the same x' and "
                 "p'; logdet = -ln|det F|; transformed gradient = F^T grad; transformation round trip; ExactNormal conserves the energy of "
                 "a matching Gaussian over 50 steps. distinct_nontrivial = low-rank cases with rank >= 1 and n >= 2."),
        "trusted": [
            "C02: proved over R for every dimension, step size of either sign and ARBITRARY gradient field: leapfrog(-eps) o leapfrog(eps) = id for Euclidean and ExactNormal (and along whole orbits); for the diagonal transformation the whitened step IS the textbook leapfrog for H = -logp + 1/2 p^T M^-1 p with M^-1 = diag(sigma^2); Diag and LowRank maps are bijections (orthonormal U, lambda > 0) whose gradient map is the adjoint of the linear part; logdet = -sum log sigma; ExactNormal conserves 1/2|v|^2+1/2|y|^2 on the standard normal; the Euclidean step conserves the shadow energy of a harmonic oscillator exactly (hence energy error O(eps^2) there); the step is a composition of three shears, each bijective with explicit inverse",
            "C02: volume preservation IS proved, measure-theoretically (Thm/C02Volume: each shear, the Euclidean leapfrog step and its iterates preserve Lebesgue measure for any measurable whitened-gradient field; no smoothness needed); the ExactNormal step (kick, exact rotation for every angle, kick) likewise (Thm/C02VolumeExn); the microcanonical (ESH) dynamics are not volume preserving in the Euclidean sense and are covered by C18's identities instead; NOT proved: energy error O(eps^2) for arbitrary smooth densities (needs Taylor estimates) -- supported numerically only; the textbook identity for the LOW-RANK transformation is checked by the dense-matrix oracle on real steps, its Lean statement covers the diagonal case; Sylvester's determinant identity for the low-rank logdet is checked numerically (ln|det F| by LU)",
        ],
    },
    "C03": {
        "gen": ["Numeric"],
        "thm_module": "NutsModel.Thm.C03Window",
        "namespace": "NutsModel.C03",
        "theorems": [
            "draw_no_panic", "depth_le_maxdepth", "steps_bounds", "index_bounds", "draw_is_visited",
            "maxdepth_flag_iff", "at_least_one_step", "draw_outcomes", "allOut_iff", "nLeap_eq_count",
            "buildOther_spec", "extend_spec", "drawLoop_spec", "draw_spec",
            "window_le_maxdepth", "window_ge_one", "window_reaches_target", "window_min_le_max", "window_min_spec",
            "effective_maxdepth_le", "le_two_pow_log2Ceil", "two_pow_log2Floor_le",
        ],
        "harness": ["C01", "C03"],
        "level": "proof",
        "rule": ("(a) the C01 mock-Hamiltonian records: the real nuts::draw replayed call-by-call by Model/Tree.lean (the model the "
                 "theorems are about), plus the C03 inequalities evaluated on every such run; (b) real chains through the public API "
                 "(Diag/LowRank NUTS, Diag MCLMC; Euclidean and ExactNormal; dimensions 1..100; maxdepth 1..10; mindepth; "
                 "target_integration_time; densities Gaussian / badly scaled / Student-t / quartic; periodic recoverable faults): every "
                 "returned position is looked up in the density evaluation log, logp and gradient statistics must equal the "
                 "logged values bit-exactly, and depth / n_steps / index inequalities are checked on every draw; (c) the depth window derived "
                 "from target_integration_time: the real nuts::draw on flat mock orbits that never / always U-turn, target times below one step, "
                 "at 0.999/1/1.001 x powers of two of the step, and far beyond 2^maxdepth steps; the reached depths must equal those of the tree "
                 "model run with Model.depthWindow (and never exceed maxdepth, never be 0 when maxdepth >= 1). "
                 "distinct_nontrivial = draws with depth >= 2 that moved (NUTS) + MCLMC draws + non-trivial mock trajectories + window cases not capped by maxdepth."),
        "trusted": [
            "C03: proved for Model/Tree.lean (every orbit, every option set with extra_doublings = 0, every random outcome): no assert of merge_into can fire, depth <= maxdepth, 2^depth-1 <= leapfrogs <= 2^(depth+1)-1, |index| <= 2^depth-1, the draw is the start or the destination of a successful leapfrog of this trajectory, maxdepth flag implies depth = maxdepth and no divergence, >= 1 leapfrog when maxdepth >= 1",
            "C03: not modelled: StatePool recycling (unsafe ManuallyDrop + Rc) -- absence of aliasing is only observed through the bit-exact position/logp/gradient consistency of real runs; the depth window derived from target_integration_time is a hand model over the naturals (Model/DepthWindow.lean: proved never to exceed options.maxdepth, to keep one doubling, to reach the target unless capped), tied through mock orbits to the real draw; its float front end (division, ceil, log2 of an integer below 2^53) is replayed at Float; 'stops exactly when' is carried by the bit-exact correspondence of the tree model, its full formal statement (least depth) is not proved",
        ],
    },
    "C06": {
        "gen": ["Numeric", "Adapt", "Collector"],
        "thm_module": "NutsModel.Thm.C09Collector",
        "namespace": "NutsModel.Sched",
        "theorems": [
            "adapt_refines_schedStep", "new_eq_schedNew", "new_start_values",
            "step_after_warmup", "step_final_window", "step_mass_phase", "transformation_frozen", "transformation_frozen_run",
            "stepsize_frozen_after_warmup", "stepsize_frozen_run", "last_uses_average", "tuning_step", "tuning_flag_exact",
            "any_num_tune_constructs", "nextWindow_grows",
            "Flow.tuning_flag_exact", "Flow.tuning_flag_exact_from_start", "Flow.transformation_frozen", "Flow.update_iff",
            "Flow.post_warmup_actions", "Flow.last_warmup_uses_average", "Flow.estimator_choice",
        ],
        "harness": "C06",
        "level": "proof",
        "rule": ("real chains of the four Euclidean presets (Diag/LowRank x NUTS/MCLMC) x step-size method (dual averaging, Adam, fixed) "
                 "x num_tune (every value 0..40, then random up to 2000) x random window fractions / switch and update frequencies / "
                 "growth / jitter, with periodic recoverable density faults making the good/rejected history irregular; after EVERY "
                 "draw the hook counters (tuning, has_initial, last_update, window, foreground and background counts), the internal "
                 "dual-averaging / Adam state and the tuning flags are compared with Model/Schedule.lean (exact integers, bit-exact "
                 "floats). Direct oracle on the implementation: exactly num_tune tuning draws (Progress and statistic), no "
                 "transformation id change at or after the final window, post-warmup step_size_bar constant and step size inside "
                 "the jitter band. FLOW strategy (FlowNuts / FlowMclmc, num_tune 0..11 and random up to 400, random step_size_window "
                 "and transform_update_freq): per draw the tuning flags and the transformation index of the returned point are compared "
                 "with Model/FlowSchedule.lean (which draws re-fit the transformation); same direct oracle. "
                 "distinct_nontrivial = chains with >= 2 window switches + flow chains with at least one re-fit."),
        "trusted": [
            "C06: GlobalStrategy::adapt is TRANSLATED from src/adapt_strategy.rs on every run (Gen/Adapt.lean); its two sub-strategies are interface objects (Model/AdaptIface.lean: estimator contents as sample-id lists, adapt() changes iff the foreground holds >= 3 samples; step-size strategy = log of the calls it receives) -- the same abstraction as the hand model; theorem adapt_refines_schedStep proves the generated function equal to the hand model schedStep (state, parameters, order and arguments of the step-size calls) for every state, draw number and oracle, so the schedule theorems hold for the code as translated; likewise GlobalStrategy::new (asserts = the call panics; theorems new_eq_schedNew, new_start_values) and DrawGradCollector::register_draw (which draws the estimators use; theorem register_draw_is_good: equal to the hand model isGoodDraw)",
            "C06: Model/Schedule.lean (GlobalStrategy::adapt, single-assignment transcription) and Model/FlowSchedule.lean (ExternalTransformAdaptation::adapt) are hand-written and tied by per-draw correspondence: hook counters for the former, tuning flags and transformation index (public statistics) for the latter",
            "C06: that Progress is built after adapt in both chains is checked on real runs (tuning-count oracle), not a theorem",
        ],
    },
    "C09": {
        "gen": ["Numeric", "Adapt", "Collector"],
        "thm_module": "NutsModel.Thm.C09Collector",
        "namespace": "NutsModel.Sched",
        "theorems": [
            "adapt_refines_schedStep", "new_eq_schedNew", "new_start_values", "register_draw_is_good", "is_good_iff",
            "step_mass_phase", "switch_condition", "late_iff", "final_window_symmetric", "rejected_not_counted",
            "step_mass_reinit", "reinit_iff", "window_monotone", "nextWindow_grows", "fresh_step", "no_stale_draws",
        ],
        "harness": "C06",
        "level": "proof",
        "rule": ("same runs as C06 (the schedule model is shared): per-draw comparison of foreground/background counts, current window, "
                 "last update, has_initial flag and of WHICH acceptance statistic advanced the step-size estimator (the model's "
                 "early/late choice must reproduce the observed dual-averaging / Adam state bit-exactly). "
                 "distinct_nontrivial = chains with >= 2 window switches."),
        "trusted": [
            "C09: GlobalStrategy::adapt is TRANSLATED from src/adapt_strategy.rs on every run (Gen/Adapt.lean); its two sub-strategies are interface objects (Model/AdaptIface.lean: estimator contents as sample-id lists, adapt() changes iff the foreground holds >= 3 samples; step-size strategy = log of the calls it receives) -- the same abstraction as the hand model; theorem adapt_refines_schedStep proves the generated function equal to the hand model schedStep (state, parameters, order and arguments of the step-size calls) for every state, draw number and oracle, so the schedule theorems hold for the code as translated; likewise GlobalStrategy::new (asserts = the call panics; theorems new_eq_schedNew, new_start_values) and DrawGradCollector::register_draw (which draws the estimators use; theorem register_draw_is_good: equal to the hand model isGoodDraw)",
            "C09: estimator contents are modelled as lists of sample ids (which draws are inside), not their numeric values; that both estimators (two running-variance pairs / deque with background_split) realise exactly these contents is checked through their counts on every draw",
        ],
    },
    "C14": {
        "gen": [],
        "thm_module": "NutsModel.Thm.C14",
        "namespace": "NutsModel.C14",
        "theorems": ["hm_run", "hashmap_roundtrip", "warmup_before_sampling", "ar_run", "arrow_roundtrip",
                     "store_warmup_false_omits_exactly_warmup", "hashmap_eq_arrow_flatten", "nd_run", "ndarray_roundtrip", "zarr_finalize_roundtrip"],
        "harness": "C14",
        "level": "proof",
        "rule": ("a real chain (Diag NUTS, LowRank NUTS, Diag MCLMC; vector draws, scalar/vector/string/event statistics; divergences from "
                 "periodic faults; 1..3 chains, a non-zero chain driven) recorded into each real backend by hand exactly as the sampler's "
                 "chain loop does: HashMap, ndarray, Arrow with store_warmup on/off, Zarr sync with store_warmup on/off (finalised store, "
                 "event-array sizes, root attribute sampler_settings = settings used), CSV (precision 3..11, store_warmup on/off); num_tune "
                 "and num_draws from {0,1,2,6,7,8,11,15,20,23}; every fifth run aborted after a random prefix. Direct oracle: the finalised "
                 "object equals the reference recording value by value (bit patterns; CSV to its printed precision). The per-variable "
                 "recorded sequences and backend outputs are replayed by Model/Storage.lean (HashMap, Arrow, ndarray). "
                 "distinct_nontrivial = runs with warmup and sampling draws and injected divergences."),
        "trusted": [
            "C14: proved for the backend state machines of Model/Storage.lean, for every record sequence: HashMap finalize = recorded warmup values ++ recorded sampling values; Arrow = one row per stored draw, null exactly where the statistic was absent, store_warmup=false drops exactly the tuning draws; ndarray slot k = value of draw k or the default; Zarr finalize = recorded values (from C15)",
            "C14: models cover one variable of one chain with opaque cells; CSV formatting, Arrow builders, zarrs and ndarray indexing are checked by reading back real results, not modelled; 'all backends agree' follows from each agreeing with the same reference recording on identical seeds",
        ],
    },
    "C15": {
        "gen": [],
        "thm_module": "NutsModel.Thm.C15",
        "namespace": "NutsModel.C15",
        "theorems": ["store_sound", "flush_complete", "finalize_complete", "flushed_data_stable",
                     "crash_after_flush_loses_only_tail", "defined_stays_defined", "buffer_bounded", "not_sound_without_monotone", "finalize_exact"],
        "harness": "C15",
        "level": "proof",
        "rule": ("real ZarrConfig (MemoryStore and FilesystemStore re-opened with a fresh store object) and ZarrAsyncConfig (tokio, "
                 "sync-to-async adapter) driven by a real chain exactly as the sampler's chain loop does; chunk sizes {1,2,3,7,10,100} "
                 "against num_tune in {0, chunk, chunk+1, 2chunk-1, random} and num_draws in {0,1,chunk,chunk+1,random}; three presets; "
                 "1..3 chains (a non-zero chain index is driven); divergences from periodic recoverable faults. After EVERY draw (or "
                 "every third) flush() is called and a fresh reader must return, for every statistic and draw variable incl. string and "
                 "event arrays, exactly the values recorded so far (bit patterns); then finalize and read everything again. The op "
                 "sequences of an always-present, a divergence-event and an update-event statistic are replayed by Model/ZarrStore.lean. "
                 "distinct_nontrivial = runs whose num_tune is not a multiple of the chunk size and where values were read back."),
        "trusted": [
            "C15: proved for Model/ZarrStore.lean (every value type, every chunk size >= 1, every op sequence with tuning flags true..true false..false): the store never holds a wrong value; immediately after flush (and after finalize) every recorded value of both arrays is readable; readable cells stay readable with the same value under any later ops (so a crash after a flush loses only the unflushed tail); a machine-checked counterexample shows the monotone-tuning hypothesis is necessary",
            "C15: the model covers one variable of one chain with abstract values; zarrs store/retrieve semantics (store_chunk / store_chunk_subset / string subset overwrite the addressed region) are assumed and checked by reading back every value at every flush point; async completion order is exercised on a multi-threaded runtime, not enumerated",
        ],
    },
    "C18": {
        "gen": [],
        "thm_module": "NutsModel.Thm.C18",
        "namespace": "NutsModel.C18",
        "theorems": ["inv_init", "inv_step", "halving_time_conserved", "steps_eq_base_add_retries", "steps_ge_base", "steps_eq_iff",
                     "all_ok_steps", "no_underflow", "no_underflow_reachable", "factor_bound", "diverged_only_at_budget",
                     "mu_decreases", "loop_terminates", "esh_raw_norm", "esh_unit_norm", "normalize_unit_norm", "esh_delta_ke",
                     "esh_update_explicit"],
        "harness": ["C18", "C17"],
        "level": "proof",
        "rule": ("real Diag/LowRank MCLMC chains, dimensions 2..31, step sizes, decoherence lengths, subsample frequencies {1, .5, .37, "
                 ".1, 0}, three trajectory kinds, dynamic step size on/off; recoverable density faults injected at chosen evaluation "
                 "indices (isolated, bursts that exhaust the 10 halvings, clusters) so that the outcome of every leapfrog is known; per "
                 "draw the outcome list is replayed by the step-loop model (steps taken, divergence or not, number of evaluations). Direct "
                 "oracle: unit-norm momentum after every microcanonical draw (hook accessor), num_steps = max(1, round(f L / eps)) without "
                 "divergence, divergent draws keep the position, evaluations = steps + failed leapfrogs. The ESH update itself is "
                 "compared with the closed form by the C17 kernel records (esh). distinct_nontrivial = draws with >= 1 failed leapfrog."),
        "trusted": [
            "C18: proved: time accounting invariant of the halving loop (total integrated time = num_base_steps * eps at normal exit, stack empty, factor back to 1), steps = base steps + retries, >= base steps (the assert cannot fire), no underflow of prev_remaining - 1, stack depth <= max_halvings, a divergence is reported only with the halving budget exhausted, termination by a decreasing measure; over R: closed form of the ESH raw norm, unit norm after the update for every step of either sign (n >= 2, unit p, g != 0), unit norm after normalize, returned kinetic-energy change = documented closed form",
            "C18: the loop model abstracts each leapfrog to ok/diverge/err; partial momentum refresh, the trajectory switch and the fresh momentum after a divergent draw are checked on real runs (unit norm, position unchanged), not modelled",
        ],
    },
    "C16": {
        "gen": ["Schema"],
        "thm_module": "NutsModel.Thm.C16",
        "namespace": "NutsModel.C16",
        "theorems": ["preset_flat_some", "names_nodup_dec", "names_nodup", "lookup_own", "getAll_names_aligned",
                     "optional_known_dec", "nonevent_optional", "nonevent_always_or_never", "divergence_fields_dec",
                     "event_fields_iff_event", "event_classified_dec", "event_field_present_only_on_event",
                     "identifying_fields_declared_dec"],
        "harness": "C16",
        "level": "proof",
        "rule": ("all six presets x store_* flag combinations (all off, all on, random) x dimensions {0,1,2,3,17} x fault regimes (none, "
                 "periodic recoverable errors, periodic NaN log-density) -- short chains with warmup so that transformation updates and "
                 "divergences occur; (a) the schema reported by Settings::stat_names/types/dims/event_dims is compared field by field with "
                 "the model's flattening of the GENERATED struct schemas; (b) every draw's Storable::get_all is compared with it: names "
                 "and order, value type, scalar/vector, length = product of declared dims, presence of every optional statistic vs the "
                 "model's presence rule. Direct oracle: duplicate names, type/shape/event violations, draw counter +1, chain constant, "
                 "non-event statistic sometimes-present. distinct_nontrivial = chains with >= 1 divergent draw and >= 2 transformation updates."),
        "trusted": [
            "C16: the per-struct field lists are re-extracted from the Rust sources on every run (tools/rs2lean.py gen_schema); the model of the derive macro (field order, first-match lookup) and the per-preset type composition (Model/Stats.lean) are hand-written and tied by the schema/row correspondence",
            "C16: presence rules (Model/Stats.lean expectedPresent) are hand-transcribed from extract_stats / DivergenceStats::from and tied per draw; low-rank `inner.is_some()` is not observable, so mass_matrix_eigvals presence is accepted either way when an update with store_mass_matrix is reported",
        ],
    },
    "C19": {
        "gen": ["Settings"],
        "thm_module": "NutsModel.Thm.C19Settings",
        "namespace": "NutsModel.C19",
        "theorems": ["roundtrip", "fromJson_conforms", "presets_wf", "settings_roundtrip", "presets_names", "settings_json_injective", "settings_reencode"],
        "harness": "C19",
        "level": "proof",
        "rule": ("the default value and random values of each of the six settings types (every field randomised: floats over 24 orders of "
                 "magnitude incl. 0, negative and the smallest normal, integers incl. 0 and u64::MAX, every enum variant, None/Some, nested "
                 "adaptation options) -> serde_json; the JSON document is decoded by the Lean model with the type descriptor GENERATED from "
                 "the Rust sources and re-encoded (equal modulo member order). Direct oracle: from_str(to_string(s)) re-serialises to the "
                 "same JSON; for a sanitised random variant of each value a 25-draw chain built from the decoded settings is bit-identical "
                 "to the one built from the original. distinct_nontrivial = settings values whose decoded copy reproduced the chain."),
        "trusted": [
            "C19: proved: fromJson ty (toJson v) = some v for every well-formed type descriptor and conforming value (any nesting), and the six generated settings descriptors are well-formed (decide, re-run on regenerated data) -- so a skipped/renamed/defaulted field, a duplicate name or an added #[serde(...)] attribute breaks the translator or the proof",
            "C19: assumed: serde's derived impls behave as modelled (Model/Serde.lean: externally tagged enums, unknown keys ignored, missing key = error) and serde_json round-trips finite f64 -- both tied by the correspondence on every run; NaN/inf are outside the property",
            "C19: 'the settings stored in a trace's metadata are those the run used' is checked with the Zarr backends in C14/C15, not here",
        ],
    },
    "C17": {
        "gen": [],
        "thm_module": "NutsModel.Thm.C17",
        "namespace": "NutsModel.C17",
        "theorems": ["sumFrom_eq", "sum_range_mul", "sum_range_blocks", "simdSum_eq", "split_partition", "region_index", "region_injective", "region_in_bounds",
                     "scalar_prods2_eq", "scalar_prods3_eq", "vector_dot_eq"],
        "harness": "C17",
        "level": "proof",
        "rule": ("every public vector operation of CpuMath (axpy, axpy_out, array_mult(_inplace), scalar_prods2/3, array_vector_dot, "
                 "sq_norm_sum, the three harmonic flows, all_finite(_and_nonzero), recip, normalize, fill, sum_ln, esh_momentum_update, "
                 "apply_lowrank_transform(_inplace) for ranks 0,1,2,5,n) for EVERY length 0..=130 x 4 value classes (moderate, full "
                 "exponent range, one special value {0,-0,subnormal,1e-300,+-1,+-1e100,+-inf,NaN} planted in each region of the SIMD "
                 "split, many specials); compared with the element-by-element formula (condition-aware tolerance; NaN <-> NaN, inf exact) "
                 "by the Lean driver -- which also runs the four-accumulator model simdSum at lane widths 4 and 8 -- and independently "
                 "by the harness; sentinel probe: every output element written. distinct_nontrivial = distinct (kernel, n) with n >= 16 "
                 "(4x-unrolled AVX2 body entered)."),
        "trusted": [
            "C17: proved: the index split (n/L vectors -> n/L/4 unrolled blocks + SIMD tail, n%L scalar tail) counts every index < n exactly once for every n and every lane width L >= 1; the four-accumulator reduction equals the plain sum in any commutative monoid (hence over R); scalar_prods2/3 and vector_dot are those sums",
            "C17: not proved: floating-point closeness (order of summation, fused multiply-add) -- measured with a condition-aware tolerance; NaN/inf behaviour is measured on the special-value grid (ill-conditioned cancellations in scalar_prods3 whose two associations differ are counted as dont_care); which SIMD width pulp dispatches to depends on the CPU (recorded in the evidence notes)",
        ],
    },
    "C07": {
        "gen": ["Numeric"],
        "thm_module": "NutsModel.Thm.C07",
        "namespace": "NutsModel.C07",
        "theorems": [
            "advance_eq", "dom_advance", "da_monotone", "da_bounded", "step_le_max", "adapted_le_max",
            "wavg_closed", "avgWeight_nonneg", "avgWeight_sum_one", "da_average_formula",
            "adam_advance_eq", "adam_direction", "register_leapfrog_eq", "accStat_range",
            "accStatSym_range", "accStatSym_symm", "accept_stat_range",
            "search_exit_classification", "search_brackets_forward", "search_brackets_backward",
            "search_step_is_initial_unless_found",
        ],
        "harness": "C07",
        "level": "proof",
        "rule": ("cases = (options, initial step, target, acceptance history) drawn from VERIF_SEED: default and random "
                 "options, histories all-0 / all-1 / alternating / uniform / near-target / block / edge values, lengths 1, 2, "
                 "random and the tier maximum; plus step-size-search scripts driven through the real Strategy::init with a "
                 "scripted mock Hamiltonian. Each case is replayed bit-for-bit by the Lean model (Float instance of the "
                 "translated code). distinct_nontrivial counts distinct cases on which a direct oracle had something to "
                 "decide (paired history with >=1 raised entry; Adam run with >=1 update whose smoothed statistic is "
                 "outside the guard band; search that took >=1 doubling/halving)."),
        "trusted": [
            "C07: closed-loop claim ('post-warmup mean acceptance close to target') is measured by the C06/C04 runs, not proved",
            "C07: step-size search is a hand-written model (Model/StepSizeSearch.lean) tied by correspondence through Strategy::init with a mock Hamiltonian; DualAverage/Adam/acceptance statistics are translated from source",
        ],
    },
    "C10": {
        "gen": [],
        "thm_module": "NutsModel.Thm.CtlTrace",
        "namespace": "NutsModel.Ctl",
        "theorems": ["trace_eq_range", "drawn_eq_recorded", "schedule_independent_prefix", "schedule_independent_complete",
                     "trace_prefix_full", "streams_distinct", "resume_exact", "n_step_mono", "trace_grows", "trace_nodup"],
        "harness": "C10",
        "level": "proof",
        "rule": ('the REAL parallel Sampler (rayon pool, 1..16 cores, 1..8 chains, HashMap and Arrow traces alternating, Diag NUTS / LowRank NUTS / Diag MCLMC presets in rotation) run under seeded schedule perturbation (hook arm_schedule: random sleeps/yields at every chain-loop and controller point) with a seeded script of pause / resume / progress / flush / inspect / wait_timeout / abort calls, a watchdog for hangs and catch_unwind for panics. ' +
                 "C10 mode: no failures, no abort. Direct oracle: every chain's finalised trace (all variables, bit patterns) equals the trace of "
                 "the SAME chain run alone and sequentially (Settings::new_chain with the chain's seed/stream, no threads), whatever the core count, "
                 "number of other chains and command script; no two chains of a run have identical draws. "
                 "distinct_nontrivial = runs with a non-empty command script."),
        "trusted": ['C10-C13: the chain task and controller actions are a hand-written model (Model/Controller.lean): one loop iteration is one atomic step (justified: everything before the record part is chain-local and the trace mutex is held across record+progress); channels are FIFO lists; rayon scheduling, mpsc and Mutex internals, OS threads and timeouts are NOT modelled -- they are exercised by the real-sampler runs under seeded schedule perturbation, which sample interleavings rather than enumerate them', "C10-C13: tie = every chain task's event log (hook chain_event: task start, message seen at each loop top, blocking receive, draw, record, slot-gone, end) is replayed through the model's chainStep by the Lean driver and must be a run of the model"] + [
            "C10: proved for the model: under every schedule the recorded trace is [0..n) of the chain's own stream (nothing lost, duplicated, reordered); that the k-th expanded_draw of a chain depends on its seed only (no shared mutable state, ChaCha8 stream = chain+1) is the model's assumption, checked by the bit-exact comparison with the sequential replay",
        ],
    },
    "C11": {
        "gen": ["Progress"],
        "thm_module": "NutsModel.Thm.C11Progress",
        "namespace": "NutsModel.Ctl",
        "theorems": ["no_deadlock", "terminates_after_finalize", "terminates_after_finalize_tight", "never_blocked_when_dead",
                     "complete_if_not_aborted", "n_le_total", "trace_prefix_invariant", "trace_prefix_full", "progress_agrees",
                     "zero_total_records_nothing", "done_no_step",
                     "pupd_eq", "progress_finished", "progress_divergences", "progress_steps", "progress_divergent_draws",
                     "progress_total_unchanged", "mem_divIdx", "divIdx_length", "progress_counters_agree"],
        "harness": "C11",
        "level": "proof",
        "rule": ('the REAL parallel Sampler (rayon pool, 1..16 cores, 1..8 chains, HashMap and Arrow traces alternating, Diag NUTS / LowRank NUTS / Diag MCLMC presets in rotation) run under seeded schedule perturbation (hook arm_schedule: random sleeps/yields at every chain-loop and controller point) with a seeded script of pause / resume / progress / flush / inspect / wait_timeout / abort calls, a watchdog for hangs and catch_unwind for panics. ' +
                 "C11 mode: command scripts including repeated pause, resume without pause, commands after completion, abort while paused / "
                 "before any chain started, num_chains <,=,> num_cores, slow chains; runs end by wait or by abort. Direct oracle: every call "
                 "returns (watchdog), an un-aborted run records exactly num_tune+num_draws draws per chain equal to the sequential trace and "
                 "reports finished, an aborted run's traces are prefixes of the sequential traces, progress counters never exceed the trace; at EVERY "
                 "progress snapshot (script calls, polls, after completion) the divergence count, the list of divergent draws and the step total "
                 "are those of the first finished_draws rows of the chain's trace (a quarter of the runs inject periodic recoverable density "
                 "errors into every chain so that most draws diverge, and read the counters after all chains finished). "
                 "distinct_nontrivial = runs with a non-empty command script."),
        "trusted": ['C10-C13: the chain task and controller actions are a hand-written model (Model/Controller.lean): one loop iteration is one atomic step (justified: everything before the record part is chain-local and the trace mutex is held across record+progress); channels are FIFO lists; rayon scheduling, mpsc and Mutex internals, OS threads and timeouts are NOT modelled -- they are exercised by the real-sampler runs under seeded schedule perturbation, which sample interleavings rather than enumerate them', "C10-C13: tie = every chain task's event log (hook chain_event: task start, message seen at each loop top, blocking receive, draw, record, slot-gone, end) is replayed through the model's chainStep by the Lean driver and must be a run of the model"] + [
            "C11: ChainProgress::update is TRANSLATED from src/sampler.rs on every run (Gen/Progress.lean; the Duration field `runtime` is not modelled): proved for the generated definition, for every start state and report sequence, finished_draws = number of reports, divergences = number of post-warmup divergent reports, divergent_draws = their positions, total_num_steps = sum of their step counts; that the chain loop calls update once per recorded draw is the hand model's progress_agrees plus the snapshot oracle on real runs",
            "C11: deadlock freedom is proved per chain (a chain has no step only if finished or blocked in recv with a live sender; after finalize it terminates within mailbox+2 steps); the controller thread's own select loop and the rendezvous command channel are exercised, not modelled",
        ],
    },
    "C12": {
        "gen": [],
        "thm_module": "NutsModel.Thm.CtlTrace",
        "namespace": "NutsModel.Ctl",
        "theorems": ["pause_bound", "pause_blocks", "blocked_no_step", "blocked_stable", "not_started_stays_idle", "not_started_blocks",
                     "resume_exact", "resume_unblocks", "resume_unblocks_exact", "trace_eq_range", "schedule_independent_complete", "trace_grows"],
        "harness": "C12",
        "level": "proof",
        "rule": ('the REAL parallel Sampler (rayon pool, 1..16 cores, 1..8 chains, HashMap and Arrow traces alternating, Diag NUTS / LowRank NUTS / Diag MCLMC presets in rotation) run under seeded schedule perturbation (hook arm_schedule: random sleeps/yields at every chain-loop and controller point) with a seeded script of pause / resume / progress / flush / inspect / wait_timeout / abort calls, a watchdog for hangs and catch_unwind for panics. ' +
                 "C12 mode: pause placed at seeded points of the chain loop, progress sampled right after pause() returned, again after a delay, "
                 "then resume. Direct oracle: finished_draws after pause() returned grows by at most 1 + (commands outstanding for that chain), "
                 "then not at all until resume(); final trace equals the sequential trace. "
                 "distinct_nontrivial = runs in which the pause probe (progress right after pause(), after a delay, then resume) was taken."),
        "trusted": ['C10-C13: the chain task and controller actions are a hand-written model (Model/Controller.lean): one loop iteration is one atomic step (justified: everything before the record part is chain-local and the trace mutex is held across record+progress); channels are FIFO lists; rayon scheduling, mpsc and Mutex internals, OS threads and timeouts are NOT modelled -- they are exercised by the real-sampler runs under seeded schedule perturbation, which sample interleavings rather than enumerate them', "C10-C13: tie = every chain task's event log (hook chain_event: task start, message seen at each loop top, blocking receive, draw, record, slot-gone, end) is replayed through the model's chainStep by the Lean driver and must be a run of the model"],
    },
    "C13": {
        "gen": [],
        "thm_module": "NutsModel.Thm.C13Init",
        "namespace": "NutsModel.Ctl",
        "theorems": ["no_spurious_error", "error_has_cause", "err_step_failed", "draw_failure_fails", "record_failure_fails",
                     "init_failure_fails", "failure_is_reported", "error_sticky", "sampler_reports_error",
                     "initLoop_started_iff", "initLoop_fatal_iff", "initLoop_allFailed_iff", "initLoop_noAttempt_iff", "init_allFailed_iff",
                     "init_fatal_iff", "init_started_iff", "rejected_points_do_not_end_the_chain", "fatal_after_rejected_points", "init_attempted"],
        "harness": "C13",
        "level": "proof",
        "rule": ('the REAL parallel Sampler (rayon pool, 1..16 cores, 1..8 chains, HashMap and Arrow traces alternating, Diag NUTS / LowRank NUTS / Diag MCLMC presets in rotation) run under seeded schedule perturbation (hook arm_schedule: random sleeps/yields at every chain-loop and controller point) with a seeded script of pause / resume / progress / flush / inspect / wait_timeout / abort calls, a watchdog for hangs and catch_unwind for panics. ' +
                 "C13 mode: one or several chains fail at a seeded draw (initialisation, warmup, sampling, last draw) by: unrecoverable density "
                 "error, storage failure in record_sample, model construction failure, all initialisation points failing; plus recoverable-only "
                 "errors. Direct oracle: wait_timeout/abort returns Err (never Ok, never a panic of the caller, never a hang) iff some chain hit "
                 "an unrecoverable failure; recoverable errors never terminate a chain (incl. rejected first initial points followed by a good one, "
                 "in one or all chains). The initialisation outcome of every such run (n rejected points then accepted / unrecoverable / all 500 "
                 "rejected -> started / error kind) is replayed by the retry-loop model Model/InitRetry.lean (driver record `init`). "
                 "distinct_nontrivial = runs in which a chain task actually hit its unrecoverable failure."),
        "trusted": ['C10-C13: the chain task and controller actions are a hand-written model (Model/Controller.lean): one loop iteration is one atomic step (justified: everything before the record part is chain-local and the trace mutex is held across record+progress); channels are FIFO lists; rayon scheduling, mpsc and Mutex internals, OS threads and timeouts are NOT modelled -- they are exercised by the real-sampler runs under seeded schedule perturbation, which sample interleavings rather than enumerate them', "C10-C13: tie = every chain task's event log (hook chain_event: task start, message seen at each loop top, blocking receive, draw, record, slot-gone, end) is replayed through the model's chainStep by the Lean driver and must be a run of the model",
            "C13: the initialisation retry loop (500 attempts; rejected point -> next attempt, unrecoverable error -> Err, success clears the remembered error) is a hand model (Model/InitRetry.lean) with each attempt abstracted to accepted / rejected / unrecoverable; proved for every outcome stream and loop bound: the chain starts iff the first non-rejected outcome among the attempts is an accepted point, ends with the unrecoverable error iff it is an unrecoverable one, and reports 'all failed' iff every attempt was rejected; tied by the `init` records of real sampler runs"],
    },
    "C05": {
        "gen": [],
        "thm_module": "NutsModel.Thm.C05Run",
        "namespace": "NutsModel.C05",
        "theorems": ["all_kinds", "leap_classification", "good_is_ok", "unrecoverable_is_err", "trajectory_fault_diverges",
                     "trajectory_zero_grad_fine", "trial_fault_discarded", "bad_initial_point_rejected", "energy_jump_diverges", "energy_jump_elsewhere", "init_untransformed_rejects",
                     "set_position_outcomes", "nonfatal_fault_never_fails", "nonfatal_fault_never_fails_partial", "reinit_fault_discarded",
                     "Tree.draw_fault_spec", "Tree.fault_stops_trajectory", "Tree.divergence_reported", "Tree.divergence_genuine",
                     "Tree.unrecoverable_is_err", "Tree.no_fault_no_report", "Tree.returned_state_valid",
                     "leap_ok_iff", "leap_err_iff", "leap_diverge_iff", "unrecoverable_in_trajectory_is_err",
                     "fault_in_trajectory_diverges", "nothing_after_a_fault", "returned_draw_is_valid", "clean_run_not_flagged"],
        "harness": "C05",
        "level": "proof",
        "rule": ("FAULT ENUMERATION on real chains (Settings::new_chain, Chain::set_position, Chain::expanded_draw, each call under "
                 "catch_unwind): for Diag / LowRank / Flow NUTS x Euclidean / ExactNormal kinetic energy x dual averaging / Adam / fixed "
                 "step size (quick: a third of the 18 combinations chosen by the seed; thorough: all) a reference run is recorded, then one "
                 "run for EVERY evaluation index k of that run (set_position: initial evaluations and every step-size-search trial; every "
                 "leapfrog of every warmup and sampling draw; the step-size re-initialisation) x EVERY fault kind (recoverable, unrecoverable, "
                 "NaN / +inf / -inf log-density, NaN / inf gradient, zero gradient component), plus random pairs of faults; plus fixed-step "
                 "runs beyond the stability limit for genuine energy-error divergences. Direct oracle: no panic; an unrecoverable error "
                 "makes exactly that call return Err; any other fault inside a trajectory gives Ok + diverging + divergence_message; a fault "
                 "in a step-size-search trial leaves the call Ok; every returned draw has a finite position whose density equals the reported "
                 "finite logp bit-for-bit (i.e. it is a state that was evaluated successfully), finite positive step size, for all later draws "
                 "too. The role of the faulted evaluation is recovered from the evaluation log and each (call, role, kind, outcome) class is "
                 "replayed against Model/Faults.lean. distinct_nontrivial = faulted runs whose fault hit a trajectory leapfrog."),
        "trusted": [
            "C05: Model/Faults.lean abstracts an evaluation to (error kind | logp finite, gradient finite, gradient non-zero); that a non-finite log-density or gradient makes the leapfrog's energy error non-finite or too large is IEEE arithmetic, assumed by the model and exercised at every evaluation index by the enumeration",
            "C05: the table fault kind x role is finite and decided completely; 'every position of the fault, any number of faults, runs of any length' is carried by the tree theorems (Thm/C03, Thm/C05Tree: for every orbit) -- the tie of the tree model to nuts::draw under scripted divergences/errors is C01/C03's correspondence",
            "C05: MCLMC retry-with-smaller-step is covered by C18; estimator guards against invalid variances by C08",
        ],
    },
    "C08": {
        "gen": ["Kernels"],
        "thm_module": "NutsModel.Thm.C08Gen",
        "namespace": "NutsModel.C08",
        "theorems": ["addAll_affine", "addAll_affine_new", "var_nonneg", "var_eq_zero_iff", "mean_is_average", "gaussian_scale_exact",
                     "adapt_none", "adapt_exact_of_foreground", "adapt_exact_on_gaussian", "adapt_none_below_three",
                     "adapt_exact_of_background", "adapt_exact_after_switch", "scale_stays_positive", "invalid_keeps_previous",
                     "invalid_keeps_previous_draw_zero", "invalid_keeps_previous_grad_zero", "invalid_keeps_previous_neg",
                     "init_scale_positive", "init_positive", "spd_mean_solves_riccati", "gaussian_is_fixed_point",
                     "gen_update_variance", "gen_update_draw_grad", "gen_update_grad"],
        "harness": "C08",
        "level": "proof",
        "rule": ("A. the REAL DiagAdaptStrategy + DiagMassMatrix and LowRankMassMatrixStrategy + LowRankMassMatrix driven through the hook "
                 "EstimatorProbe exactly as GlobalStrategy drives them (init, update_estimators with is_good flags, switch, adapt), dimension 1..50 "
                 "(low-rank 1..12), with (i) exact Gaussian windows: means and standard deviations over a condition number up to 1e12, any "
                 "number >= 3 and placement of draws, rejected draws interleaved, window switches; (ii) degenerate windows: per coordinate constant "
                 "draws, zero gradients, constant both, huge/tiny magnitudes, NaN, +-inf, signed zeros, 1e300/5e-324 entries. Direct oracle after "
                 "every adapt: every std and 1/std finite and > 0, log-determinant finite, low-rank eigenvalue factors finite and > 0, no update "
                 "below 3 samples, and on Gaussian windows std = sigma and mean = mu to rounding (tolerance scaled by |mu|/sigma). Every diagonal run "
                 "is replayed bit for bit (std, 1/std, mean of every coordinate after every adapt, including the NaN/inf cases) by "
                 "Model/MassMatrix.lean at Float. B. real chains (Diag and LowRank NUTS, public API) on diagonal / rank-one-correlated Gaussians: "
                 "after warmup fisher_distance = |grad_y + y|^2 <= 1e-10 (1+|y|^2) on every draw and no divergences. "
                 "distinct_nontrivial = scenarios in which at least one adapt changed the transformation + chain runs."),
        "trusted": [
            "C08: TRANSLATOR TIE for the element-wise kernels: Gen/Kernels.lean is regenerated on every run from the closures of array_update_variance, array_update_var_inv_std_draw_grad, array_update_var_inv_std_grad (and _draw) in src/math/cpu_math.rs, and gen_update_variance / gen_update_draw_grad / gen_update_grad prove, for every scalar type, that the hand model's functions are those closures; the surrounding plumbing (slices, zips, which estimator feeds which argument, count bookkeeping, switch) remains hand-modelled and tied by the bit-exact replay",
            "C08: proved at the reals for the per-coordinate model: the running estimator is affine-equivariant, its variance is zero iff all samples are equal, hence for ANY >= 3 not-all-equal draws of a Gaussian the update returns exactly (sigma, 1/sigma, mu); scales stay > 0 and within [sqrt lo, sqrt hi] or unchanged for arbitrary real inputs; invalid ratios keep the previous value",
            "C08: NaN / infinity behaviour is not expressible at the reals: it is carried by the bit-exact Float replay of the same model definitions against the real estimator on the special-value windows, and by the direct oracle",
            "C08: the low-rank pipeline (faer SVD / QR / eigendecompositions) is not modelled: proved is only the algebra of its SPD-mean formula (X B X = A; the Gaussian covariance is a solution), its behaviour is measured (part A degenerate windows, part B exactness through fisher_distance); uniqueness of the SPD solution and the effect of the gamma regularisation are not proved",
        ],
    },
    "C04": {
        "gen": [],
        "thm_module": "NutsModel.Thm.C04Invariant",
        "namespace": "NutsModel.C04",
        "theorems": ["shift_orbit", "phase_space_detailed_balance", "mixture_reversible", "momentum_is_fresh", "arrayGaussian_scales",
                     "draw_shift_outcomes", "K_support", "K_total", "K_nonneg", "Kz_support", "Kz_total", "Kz_nonneg", "draw_bernOk",
                     "Kfull_nonneg", "Kfull_row_sum", "Kfull_detailed_balance", "nuts_leaves_target_invariant",
                     "nuts_jitter_leaves_target_invariant", "jitter_row_sum"],
        "harness": "C04",
        "level": "other",
        "rule": ("STATISTICAL SUPPORT, not proof: real chains (public API, default settings apart from num_draws) for Diag / LowRank NUTS x Euclidean / "
                 "ExactNormal kinetic energy x dual averaging / Adam on isotropic, badly scaled (condition number 1e6), rank-one-correlated Gaussians, "
                 "a Student-t(8) product and a skewed log-Gamma(2) product, dimension 1, 5, 30 (thorough: also 100), 4 chains each (quick: half of the "
                 "120 combinations chosen by the seed; thorough: all, 6000 draws). Per monitored coordinate: z-scores of the mean, of the variance and of the "
                 "coverage of the true 5/25/50/75/95% marginal quantiles against the KNOWN truth, batch-means standard errors (120 batches); post-warmup "
                 "divergences on the isotropic Gaussian must be 0. Momentum law: for Diag presets with both kinetic energies the initial velocity of every "
                 "post-warmup trajectory is reconstructed from the first density evaluation of the draw (inverting the first leapfrog step of the C02 "
                 "model with the frozen scales) and tested for mean 0, variance 1, kurtosis 3 per coordinate, Kolmogorov-Smirnov distance to N(0,1), lag-1 "
                 "autocorrelation and correlation with the previous whitened position. A statistic is reported only if |z| > 6 AND a confirmation run "
                 "with fresh seeds and 4x the draws again gives |z| > 6 with the same sign. distinct_nontrivial = configurations whose chains all completed."),
        "trusted": [
            "C04: what is PROVED (Thm/C04 on top of C01Refine, C02, Sched): for every bijective integrator the frozen NUTS kernel satisfies detailed balance w.r.t. exp(-H) in phase space (phase_space_detailed_balance), also under a state-independent random step size (mixture_reversible); the velocity of a trajectory is the fresh standard-normal vector of that trajectory (momentum_is_fresh, model of initialize_trajectory/array_gaussian(ones)); after num_tune the kernel is frozen (C06). On every FINITE phase space (which a floating-point phase space is) invariance of exp(-H) under the NUTS transition, also with jitter, IS proved from the executable model (Thm/C04Invariant: total mass, support, stochastic phase-space kernel, detailed balance, stationarity); the continuous statement (invariance of pi x N(0,I) under Lebesgue measure) would combine this with Thm/C02Volume[Exn] and Fubini and is NOT formalised",
            "C04: 'means, variances and quantiles match within Monte-Carlo error' is a statement about mixing of actual runs; no model theorem decides it -- this part of the property is measured (z-scores with a confirmation stage), which is why the level claimed is 'other', not 'proof'",
            "C04: the momentum reconstruction assumes a diagonal frozen transformation (Diag presets); the low-rank presets share the same initialize_trajectory code path",
        ],
    },
}
