#!/bin/bash
# Re-apply every kept seeded change to /repo, run the quick check(s) that are recorded as catching it, undo.
# Writes seeded/RESULTS.md.  Evidence files are kept out of the mutated runs.
cd /verif
git -C /repo status --short | grep -v '^??' && { echo "/repo dirty"; exit 2; }
EVBAK=$(mktemp -d /tmp/evidence-bak.XXXX); cp -a evidence/. $EVBAK/
out=seeded/RESULTS.md
echo "# Seeded changes re-run against the current checks ($(date -u +%Y-%m-%dT%H:%MZ), /repo $(git -C /repo rev-parse --short HEAD))" > $out
echo "" >> $out; echo "| seeded change | check | exit | first message |" >> $out; echo "|---|---|---|---|" >> $out
fail=0
for d in seeded/*/; do
  n=$(basename $d)
  [ -f $d/patch.diff ] || continue
  checks=$(python3 -c "import json;print(' '.join(json.load(open('$d/meta.json'))['caught_by']))")
  git -C /repo apply $PWD/$d/patch.diff 2>/dev/null || { echo "| $n | - | patch does not apply | |" >> $out; fail=1; continue; }
  for c in $checks; do
    ./check $c > /tmp/seeded_run.log 2>&1; rc=$?
    msg=$(grep -E "^  " /tmp/seeded_run.log | head -1 | cut -c3-160 | tr '|' '/')
    echo "| $n | $c | $rc | $msg |" >> $out
    [ $rc -eq 1 ] || fail=1
  done
  git -C /repo checkout -- .
done
cp -a $EVBAK/. evidence/; rm -rf $EVBAK
echo "" >> $out; echo "all caught: $([ $fail -eq 0 ] && echo yes || echo NO)" >> $out
tail -1 $out
